#!/bin/bash
# usage: tools/try_seed.sh <property id> <dir with patch.diff demo.c demo.sh> [tier]
# Confirms a seeded change in its scratch worktree (tests pass, demo fails with / passes without), then applies it
# to /repo, runs the property's check, and undoes it. Prints a one-line verdict.
id=$1; d=$2; tier=${3:-quick}; wt=/tmp/mut/$id; pid=${id%[a-z]}
set -o pipefail
cd $wt || exit 9
git -C $wt checkout -q -- . 2>/dev/null; git -C $wt apply $d/patch.diff || { echo "SEED $id: patch does not apply to worktree"; exit 9; }
( cmake -G Ninja -B $wt/_b -S $wt -DBUILD_TESTING=1 >/dev/null 2>&1 && cmake --build $wt/_b >/dev/null 2>&1 && ctest --test-dir $wt/_b -j8 2>&1 | grep -E "tests passed|tests failed" ) > $d/confirm_tests.log 2>&1
tests=$(cat $d/confirm_tests.log)
( cd $d && bash ./demo.sh ) > $d/confirm_demo_with.log 2>&1; with=$?
git -C $wt checkout -q -- .
( cd $d && bash ./demo.sh ) > $d/confirm_demo_without.log 2>&1; without=$?
git -C $wt apply $d/patch.diff
echo "SEED $id: tests[$tests] demo_with_exit=$with demo_without_exit=$without"
git -C /repo diff --quiet || { echo "/repo is dirty"; exit 9; }
git -C /repo apply $d/patch.diff || { echo "SEED $id: patch does not apply to /repo"; exit 9; }
cd /verif && ./check $pid --tier $tier > $d/check_$tier.log 2>&1; rc=$?
git -C /repo checkout -- .
git -C /verif checkout -- evidence/$pid.json 2>/dev/null    # the evidence of a run on a changed tree is not evidence
echo "SEED $id: check($tier) exit=$rc  $(grep -c '^VIOLATION' $d/check_$tier.log) violation line(s); $(tail -1 $d/check_$tier.log | cut -c1-160)"
grep '^VIOLATION' $d/check_$tier.log | head -3 | cut -c1-330
