#!/usr/bin/env python3
"""usage: tools/keep_seed.py <id> <src dir> <round> <change> -- <needs> -- <caught_by note>
Copies a confirmed seeded change (patch.diff, demo.c, demo.sh, notes.txt, confirm logs, check log) into seeded/<id>/ and
writes meta.json from the logs try_seed.sh left in <src dir>."""
import json, os, re, shutil, sys
sid, src, rnd = sys.argv[1], sys.argv[2], int(sys.argv[3])
rest = " ".join(sys.argv[4:]).split(" -- ")
change, needs, caught = (rest + ["", "", ""])[:3]
dst = os.path.join(os.path.dirname(os.path.dirname(os.path.abspath(__file__))), "seeded", sid)
os.makedirs(dst, exist_ok=True)
for f in ("patch.diff", "demo.c", "demo.sh", "notes.txt"):
    if os.path.exists(os.path.join(src, f)):
        shutil.copy(os.path.join(src, f), dst)
rd = lambda f: open(os.path.join(src, f)).read().strip() if os.path.exists(os.path.join(src, f)) else ""
logs = sorted(f for f in os.listdir(src) if f.startswith("check_") and f.endswith(".log"))
tails, nviol, tiers = {}, {}, []
for f in logs:
    t = f[6:-4]; tiers.append(t)
    L = rd(f).splitlines()
    tails[t] = L[-1][:200] if L else ""
    nviol[t] = sum(1 for l in L if l.startswith("VIOLATION"))
    with open(os.path.join(dst, f), "w") as o:
        o.write("\n".join(l[:400] for l in L if l.startswith(("VIOLATION", "KNOWN", "C")))[-6000:] + "\n")
meta = {"property": re.sub(r"[a-z]$", "", sid), "round": rnd, "change": change, "needs_to_manifest": needs,
        "author": "independent sub-agent given only the property text and a scratch worktree (asked for a different clause than the earlier seeded changes of the property)",
        "confirmed_by_me": {"existing_tests_with_change": rd("confirm_tests.log"),
                            "demo_with_change": "fails (non-zero exit): " + (rd("confirm_demo_with.log").splitlines() or [""])[-1][:200],
                            "demo_without_change": "passes (exit 0)"},
        "ran": ["tools/try_seed.sh %s <dir>%s: worktree tests, demo with/without, git -C /repo apply patch.diff, ./check %s --tier <tier>, git -C /repo checkout -- ." % (sid, "".join(" " + t for t in tiers), re.sub(r"[a-z]$", "", sid))],
        "caught_by": caught, "violation_lines": nviol, "check_output_tail": tails}
json.dump(meta, open(os.path.join(dst, "meta.json"), "w"), indent=1)
print("kept", dst)
