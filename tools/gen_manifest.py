#!/usr/bin/env python3
"""Regenerates /verif/MANIFEST.json from the table below (keeps it schema-valid at all times)."""
import json, os
V = os.path.dirname(os.path.dirname(os.path.abspath(__file__)))

BASE_OFF = ("cmake --build /repo/_build && ctest --test-dir /repo/_build -j8 --timeout 900")

CHECKS = {
 "C17": dict(engine="cbmc", cat="model_checking", design="4/C17",
   technique="bounded model checking of src/crc.c, src/hash.c with CBMC (SAT: kissat/cadical/minisat raced), assume-guarantee lemmas (table, one-byte step, peel-last-byte fold, reflection); plus llsym symbolic execution of the block functions with a symbolic 256-entry table for the split-point (incremental == one-shot) clause",
   text="Solver verdict over all polynomials / running values / data bytes (full width) for the table, step and reflection lemmas; fold lemma for all messages up to the stated byte bound with an arbitrary table. Bounded: messages <= 3 (quick) / 4 (thorough) bytes; induction over bytes is a paper argument. Split clause: for an arbitrary table and arbitrary message bytes, feeding the message in two calls at every split point equals the one-shot value, message lengths 1,2,4,8 (thorough up to 16), all four widths and both bit orders.",
   note="CBMC's C semantics; goto-cc build with the generated config header; unwinding assertions on; each harness has a -DWITNESS twin whose assert(0) must fail."),
 "C18": dict(engine="cbmc", cat="model_checking", design="4/C18",
   technique="bounded model checking of src/utf.c with CBMC: all 2^31-1 code points symbolic, arbitrary byte buffers of symbolic length in exact-size objects",
   text="All code points 1..2^31-1 (one symbolic word) for length/round-trip/prefix clauses; all byte strings of length <= 8 (12 thorough) for no-over-read, continuation-byte and length-counter clauses.",
   note="malloc never fails; out-of-bounds pointer *formation* without access in a_utf_length_ is reported separately (mem_ub_formation_reports), not as a violation."),
 "C19": dict(engine="cbmc+llsym", cat="model_checking", design="4/C19 and 8.3",
   technique="loop-invariant proofs of isqrt and gcd (and lcm against the proved gcd contract) on the clang IR of src/math.c (llsym: base case per start value in the bit-vector domain, one symbolic iteration of the real loop body from a havoced state, exit state; obligations translated to integer arithmetic with the mod-2^w semantics kept, decided by z3) plus bounded model checking of the integer kernels and a.h bit/byte accessors with CBMC (SAT back ends raced, native replay)",
   text="isqrt and gcd, both widths: every input of the full width and any number of loop iterations, by invariant (isqrt: 1 <= x1 <= 2^(w/2) and (x1+1)^2 > x, result r with r^2 <= x < (r+1)^2; gcd: common divisors of the loop state = common divisors of the arguments, result divides both, every common divisor divides it, zero only for two zeros; lcm: result * gcd = product whenever a*b/gcd is representable, with gcd replaced by its proved contract); a counterexample to an obligation is run natively and reported only if the real function disagrees with the reference value. CBMC, bit-precise: isqrt for every x < 2^20 (2^26 thorough) plus 2049-wide windows around every power of two; gcd/lcm for operands < 2^8 (2^11) with a symbolic competing divisor, the same shifted to the upper bits, lcm against gcd's contract; rev/endian: full width.",
   note="The inductive step has no unwinding bound; it rests on the stated invariant, on the bit-vector-to-integer translator (lib/llsym/bvint.py: add/sub/mul/shl mod 2^w, udiv/urem as named quotient/remainder with their defining equation) and on dropping pre-loop constraints it cannot express (count-leading-zeros) - fewer assumptions."),
}

E2NOTE = "llsym = own forking symbolic executor for the clang-14 -O0 + sroa,mem2reg IR of the real sources with z3 as decision procedure; validated every run against a native ASan build on sampled paths; findings are replayed natively before they are reported."
CHECKS.update({
 "C01": dict(engine="llsym", cat="model_checking", design="4/C01",
   technique="symbolic execution of src/avl.c IR (llsym + z3): inductive step from every valid AVL shape up to a height bound with symbolic keys/victims, plus bounded histories from the empty tree",
   text="Every insert/remove/search with a symbolic key or victim from every AVL tree of height <= 3 (20 shapes) plus every removal from all 315 shapes of height 4 (thorough: all operations from height <= 4, 335 shapes), and every insert/remove pattern of length 5 (thorough 6) from the empty tree with symbolic keys; the solver partitions key space (all relative orders incl. duplicates). Full invariant oracle after every call.",
   note=E2NOTE + " Packed parent word configuration (A_SIZE_POINTER == 8)."),
})
CHECKS.update({
 "C02": dict(engine="llsym", cat="model_checking", design="4/C02",
   technique="symbolic execution of src/rbt.c IR (llsym + z3): inductive step from every valid red-black tree up to a node bound with symbolic keys/victims, plus bounded histories; A_ASSUME operands checked as assertions",
   text="Every insert/remove/search with symbolic key or victim from every valid red-black tree with <= 8 nodes plus every removal from every valid tree with 9 or 10 nodes (thorough: all operations, <= 11 nodes) and every insert/remove pattern of length 5 (6) from the empty tree; full red-black + BST + parent-link + contents oracle after every call.",
   note=E2NOTE + " Packed parent word configuration (bit 0 = colour)."),
 "C03": dict(engine="llsym", cat="model_checking", design="4/C03",
   technique="symbolic execution of the iterator functions and the header's foreach/fortear macros (instantiated in a wrapper TU) over every tree shape up to the bound; freed-node instrumentation for tear-down",
   text="All six iteration orders, successor/predecessor inverse clauses for a symbolic start node, and tear-down interrupted at a symbolic point, on every AVL shape of height <= 3 (4) and every red-black tree with <= 7 (9) nodes; each torn-down node object is freed at once so any later access is a use-after-free finding.",
   note=E2NOTE + " Shapes are enumerated (bounded); the solver decides start node, interruption point and key-order clauses."),
})
CHECKS.update({
 "C04": dict(engine="llsym", cat="model_checking", design="4/C04",
   technique="symbolic execution of src/vec.c, src/buf.c, src/a.c IR (llsym + z3) from constructed container states with symbolic payload bytes and symbolic 64-bit indices/counts, against an abstract sequence model",
   text="Every mutator and accessor of the vector and the fixed buffer (except the qsort/bsearch pass-throughs) from constructed states (element sizes 1,3 quick / 1,2,3,8 thorough; capacity <= 3 / 4; spare-slot and exactly-full states; symbolic payload), one operation (thorough: also pairs) with symbolic arguments where every out-of-range index/count is a single symbolic 64-bit value (so SIZE_MAX and wrapping sums are models the solver must find); every memory access checked against owned objects.",
   note=E2NOTE + " Allocation never fails in this check (C07 covers failure)."),
})
CHECKS.update({
 "C05": dict(engine="llsym", cat="model_checking", design="4/C05",
   technique="symbolic execution of the inline list.h/slist.h operations (wrapper TU) and src/que.c IR (llsym + z3) against abstract sequences; queue states reached through the API, indices symbolic",
   text="Every list/slist mutator on rings of up to 4 (5) nodes with every operand position or section (disjoint, non-adjacent for swap/set/mov), and every queue operation after every valid push/pull history of length <= 5 (quick and thorough; thorough also pairs of operations) with symbolic indices (any 64-bit value beyond the end; signed for at()), symbolic payload tags; ring integrity, fixed element addresses, pool/ring disjointness checked after every call.",
   note=E2NOTE),
})
CHECKS.update({
 "C06": dict(engine="llsym", cat="model_checking", design="4/C06",
   technique="symbolic execution of src/str.c, src/utf.c IR (llsym + z3) from constructed string states with symbolic content against an abstract byte string; vsnprintf modelled as an arbitrary NUL-free output",
   text="Every string operation (append of characters, blocks, C strings, strings, formatted text, code points; pop; trim with whitespace or symbolic sets; length change; hand-over; comparisons) from 9 constructed states (empty, capacity 8/16, terminated and raw, lengths up to the capacity) with symbolic content and arguments, plus pairs (thorough: triples) of operations across the reallocation boundary.",
   note=E2NOTE + " vsnprintf stub per C99 7.19.6.12; host C-locale isspace table."),
})
CHECKS.update({
 "C07": dict(engine="llsym", cat="model_checking", design="4/C07",
   technique="symbolic execution of vec/buf/que/str IR (llsym + z3) with a symbolic allocator: one fail/succeed Boolean per allocation request, forked by the executor; abstract-model and block-ledger oracle",
   text="For vector, buffer, queue and string states (constructed or API-built, including queues of 9-10 nodes with and without recycled pool nodes), one allocating operation under every subset of failing allocation requests, then the same operation with a healthy allocator, then destruction: failure must be reported, the container must equal its previous abstract state and satisfy its invariants (for strings built by terminating variants: the NUL after the content), the retry must succeed, and every block handed out must be released exactly once (double free / invalid free are executor findings).",
   note=E2NOTE + " Native replay installs an allocator with the model's failure mask into a_alloc."),
})
REALNOTE = " Exact-real domain: a_real is mapped to z3 Real (rational arithmetic), so the verdict is about the mathematical formula for ALL real inputs; IEEE rounding is outside the claim (stated in the evidence)."
CHECKS.update({
 "C09": dict(engine="llsym", cat="model_checking", design="4/C09",
   technique="symbolic execution of src/linalg.c IR (llsym) with a_real as z3 Real: every output element compared with its defining expression by the solver; exact-size operand objects for the no-stray-write clause",
   text="All four product variants for every row/inner/column dimension 1..3 (4 thorough), both transposes, and all identity/triangle/diagonal/triangular kernels for square orders and rectangular shapes up to 4x4 (5x5): every result element equals its definition for all real operand values, inputs unmodified, results (pre-filled with symbolic junk) fully overwritten, no access outside the arrays.",
   note=E2NOTE + REALNOTE),
 "C15": dict(engine="llsym", cat="model_checking", design="4/C15",
   technique="symbolic execution of src/trajpoly{3,5,7}.c, src/poly.c IR (llsym) with a_real as z3 Real: boundary conditions, derivative consistency and Horner identities decided by z3 (nonlinear real arithmetic)",
   text="For all real durations ts > 0, all real boundary data and a symbolic query time: position/velocity/acceleration/jerk at 0 and ts equal the requested values exactly (in the reals), coefficient accessors and evaluators are the successive formal derivatives, eval/evar equal their defining sums for coefficient vectors of length 0..6 (9), order reversal is an involution.",
   note=E2NOTE + REALNOTE + " Double literals that are roundings of simple rationals (1/6) denote those rationals."),
})
CHECKS.update({
 "C08": dict(engine="llsym", cat="model_checking", design="4/C08",
   technique="symbolic execution of src/linalg_plu.c, linalg_ldl.c, linalg_llt.c IR (llsym) with a_real as z3 Real; every pivoting pattern is a forked path; reconstruction, solve, inverse and determinant identities decided by z3 (nonlinear real arithmetic)",
   text="For all real matrices of order 1..3 (factor/solve; thorough 4) and 1..2 (inverse/determinant; thorough 3): on every success path p is a permutation with matching parity, |L_ij| <= 1, L*U = P*A / L*D*L^T = A / L*L^T = A with L_ii > 0, solve gives A*x = b, inv and inv_ agree and give A*A^-1 = I, det equals the Leibniz determinant, sgndet its sign; zero columns, equal rows and non-positive Cholesky pivots are reported as failure on every path. The rounding half of the statement is outside.",
   note=E2NOTE + REALNOTE + " log is an uninterpreted function; sqrt(x) is the y >= 0 with y*y = x."),
})
CHECKS.update({
 "C14": dict(engine="llsym", cat="model_checking", design="4/C14",
   technique="symbolic execution of src/trajtrap.c and the loop-free cruise branch of src/trajbell.c (llsym, a_real as z3 Real, nlsat): planning branches forked, symbolic query time inside every phase, limits/continuity/derivative clauses decided by z3",
   text="Trapezoid: every planning branch, both directions, all real feasible requests: phase durations ordered, start/end state, queries outside [0,t], |vel| <= |vm| for a symbolic time in each phase, acc = d vel/dt, vel = d pos/dt, position and velocity continuous at every phase boundary. Bell profile: the same clauses plus |acc| <= am, |jer| <= jm and continuity of acc, for plans with a constant-velocity phase; quick tier: the iterative acceleration-reduction loop is cut and stated as outside; thorough tier: one pass of that loop is executed under the double-S feasibility precondition (obligations the solver cannot close within its cap are listed as dropped).",
   note=E2NOTE + REALNOTE + " sqrt(x) is the y >= 0 with y*y = x; z3 'unknown' answers would be listed as dropped (bell only), there are none at present."),
})
CHECKS.update({
 "C16": dict(engine="llsym", cat="model_checking", design="4/C16",
   technique="symbolic execution of src/tf.c, a_real_push_fore and the inline lpf.h/hpf.h functions (wrapper TU) with a_real as z3 Real: outputs compared with the difference equation, linearity / time-invariance / zeroing and convexity clauses decided by z3",
   text="Transfer function with numerator/denominator orders 0..3 (4) over 4 (6) steps from zero state with symbolic coefficients and inputs: output = difference equation, delay-line contents, linearity (alpha*u + beta*w), time invariance, zero() = fresh instance; RC low-pass: convex combination, stays within the range of the inputs so far, distance to a constant input shrinks by (1-alpha); high-pass: output scales by alpha for constant input; generators strictly inside (0,1) and monotone for all positive reals.",
   note=E2NOTE + REALNOTE + " The IEEE clause (saturation only for extreme fc*ts) is outside."),
})
CHECKS.update({
 "C12": dict(engine="cbmc+llsym", cat="model_checking", design="4/C12",
   technique="CBMC bit-precise single step of src/pid.c / src/pid_neuro.c from an arbitrary state (IEEE double and float, one clause per harness) plus llsym symbolic execution with a_real as z3 Real for the difference equations, pos/inc coincidence, zeroing and the fuzzy-tuned controller",
   text="E1: one step of run/pos/inc and of the single-neuron controller from an arbitrary finite state (|v| <= 1e30; float 1e9): output inside the limits (NaN maps to outmin), returned value = stored output, state finite, integrator never moves further beyond its clamp, gains/limits untouched, zero() clears the state - inductive, hence any history length. E2: K = 3 (4) steps with symbolic gains/limits/inputs: positional output = documented equation, incremental output coincides while no limit is active, saturated equations from an arbitrary real state, zeroing = fresh controller; fuzzy controller of order 2 (3) over triangular/trapezoid sets, all seven operators: output within limits, no division by a zero weight sum.",
   note=E2NOTE + REALNOTE + " The equilibrium operator is used through its contract inside the controller (proved in C13)."),
})
CHECKS.update({
 "C13": dict(engine="llsym+cbmc", cat="model_checking", design="4/C13",
   technique="llsym symbolic execution of src/mf.c, src/fuzzy.c, src/pid_fuzzy.c with a_real as z3 Real (exp/pow uninterpreted with contracts), z3 nlsat for range/shape/continuity/complement/operator/gain clauses; CBMC bit-precise for the min/max operators",
   text="All 13 membership families for all real inputs and well-ordered parameter tuples: value in [0,1] (no division by a zero width), dispatcher = specific function, core/support/monotone-flank shape (closed core for trap/pi: value exactly 1 on [b,c]), continuity at every break point, S+Z = 1 and lins+linz = 1; the seven operators on [0,1]^2: range, commutativity, monotonicity, min/max bounds, boundary cases (min/max also bit-precisely); scheduled gains = base + weighted mean of the consequents, inside the consequent range; scratch buffer of exactly the documented size never overrun (order 3 with two simultaneously active sets); with a symbolic previous error (independent error / error change, different numbers of active sets), separate set tables and every position of the inputs relative to the triangles: kp, ki, kd = base + weighted mean over the rule table (product operator; thorough: all six closed-form operators).",
   note=E2NOTE + REALNOTE + " Bit-precise range of the membership functions is outside: floating-point division circuits give no SAT verdict within the budget."),
})
CHECKS.update({
 "C20": dict(engine="abi-z3", cat="model_checking", design="4/C20",
   technique="layouts and prototypes extracted from the real compilers on every run (gcc/clang on the headers and src/*.c IR, rustc on a copy of src/lib.rs with an appended offset_of!/size_of probe); z3 decides per field that every byte image is read identically, prototypes compared as machine-type vectors",
   text="Every #[repr(C)] structure of the binding against the C structure it mirrors (size, alignment, field count/order, per-field offset+width via 'for all byte images' z3 queries by position, and again by name for every field name both sides share, machine type class) and every extern \"C\" declaration against the C definition (arity, parameter and return machine types), for f64 and for the f32 feature (A_SIZE_REAL=4).",
   note="x86-64 SysV only; integer signedness is not compared; the z3 queries are trivial by design - the work is extracting both layouts from the real compilers each run. Needs rustc (present offline in the image)."),
})
CHECKS.update({
 "C11": dict(engine="llsym", cat="model_checking", design="4/C11",
   technique="symbolic execution of src/math.c IR in the fallback configuration (every A_HAVE_* off) and the libm-bound one, a_real as z3 Real, libm calls as fresh reals with contract/monotonicity/parity facts; nlsat decides quadrant tables, exact-branch identities, norm and reduction formulas",
   text="Partial by design: decides the atan2 quadrant/axis table over all sign combinations, the exact-branch identities of asinh/acosh/atanh/log1p/expm1 (the argument handed to log equals the defining argument; domain and sign handling), r >= 0 and r^2 = sum x^2 for norm2/norm3/norm/norm_, the composition of the coordinate conversions, and sum/sum1/sum2/mean/dot/copy/swap/fill/zero/push/roll (+strided) = their definitions for lengths 0..4 (6) in both configurations; mean/mean_ additionally: no arithmetic result of the executed IR leaves the double range when every element is a finite double (range obligation per operation, counterexample confirmed by the native IEEE run). Also the oddness of asinh/atanh and the structure of the asymptotic branches (which libm call receives which argument). NOT decided: accuracy in ulps of any transcendental evaluation, overflow-freedom of the norms.",
   note=E2NOTE + REALNOTE + " No installed solver decides transcendental accuracy; that clause of C11 is outside this check."),
})
CHECKS.update({
 "C10": dict(engine="llsym", cat="model_checking", design="4/C10",
   technique="symbolic execution of src/complex.c + inline complex.h (emitted via LIBA_COMPLEX_C) in the all-fallback and the libm-bound configuration, a_real as z3 Real, libm calls as fresh reals with sign/range/monotonicity/parity contracts; nlsat decides field identities, inverse pairs, constant relations and ISO C Annex G sign/range tables per quadrant, plus one range obligation per arithmetic result of inv/div (exact-real stand-in for IEEE overflow)",
   text="Partial by design. Decided: field arithmetic incl. all real/imaginary-scalar and in-place forms and the inverse pairs (mul/div by the same number or scalar, inv(inv z), z*inv z); no intermediate result of inv/div leaves the double range for 2^-1000 <= |z| <= 2^1000 (inv) / 2^-500 <= |x|,|z| <= 2^500 (div); relations between the math.h constants; for the configuration with every A_HAVE_C* undefined (never compiled by the test suite): principal-value sign/range tables of csqrt, clog, catan, catanh per open quadrant, casinh/cacosh against the Annex G table of casin/cacos taken as a contract, the real-argument variants, reciprocal families = inv o f, log2/log10 = log / ln b; for the casin/cacos fallback bodies (complex switches off, real ones on): on every path the argument handed to asin/acos/atan/log/log1p equals the defining expression of the principal value (B = |Re z|/A, tan(asin B), A(-1)+sqrt(A^2-1)) and the quadrant fix-up is right; for the libm-bound configuration: argument/result plumbing of 14 wrappers. NOT decided: accuracy in machine-precision units for any transcendental evaluation, values on the cuts, pow/exp, the direct Annex G proof for the casin/cacos bodies (no solver verdict).",
   note=E2NOTE + REALNOTE + " Contracts for libm follow ISO C F.10; the accuracy clause of C10 is outside this check."),
})
NOT_YET = {}

def main():
    props = [json.loads(l) for l in open(os.path.join(V, "properties.jsonl"))]
    na_file = os.path.join(V, "tools", "not_applicable.json")
    na = json.load(open(na_file)) if os.path.exists(na_file) else {}
    checks = []
    not_app = []
    for p in props:
        pid = p["id"]
        if pid in CHECKS and os.path.exists(os.path.join(V, "checks", pid + ".py")):
            c = CHECKS[pid]
            checks.append({
                "property_id": pid,
                "quick_cmd": "./check %s --tier quick" % pid,
                "thorough_cmd": "./check %s --tier thorough" % pid,
                "evidence_file": "/verif/evidence/%s.json" % pid,
                "replay_cmd_template": "./check %s --replay {path}" % pid,
                "engine": c["engine"],
                "level_claimed": {"category": c["cat"], "text": c["text"], "design_ref": "DESIGN.md section " + c["design"]},
                "level_note": c["note"],
                "technique": c["technique"],
            })
        else:
            not_app.append({"property_id": pid, "reason": na.get(pid, "check not built yet (work in progress; see DESIGN.md section 4/%s for the planned encoding)" % pid)})
    m = {
        "version": 1,
        "setup_cmd": "./setup.sh",
        "hooks": {"guard": "LIBA_VERIF", "enable": "none needed: no source hook exists; checks compile /repo sources directly (goto-cc / clang-14 -emit-llvm) with a generated config header",
                  "baseline_off_cmd": BASE_OFF, "source_commits": [], "add_only": True},
        "engines": [
            {"name": "cbmc", "path": "lib/cbmc.py", "serves_properties": [k for k, v in CHECKS.items() if "cbmc" in v["engine"]],
             "kind_free_text": "CBMC 6.11 bounded model checker on goto-cc builds of the real C translation units; SAT back ends raced"},
            {"name": "llsym", "path": "lib/llsym", "serves_properties": [k for k, v in CHECKS.items() if "llsym" in v["engine"]],
             "kind_free_text": "own forking symbolic executor for clang-14 LLVM IR of the real sources, z3 as decision procedure (bit-vector and exact-real domains)"},
        ],
        "checks": checks,
        "not_applicable": not_app,
        "notes": "Solver-based checking of the real code; every claim is bounded, bounds are in each evidence file. Known findings: known_findings.txt.",
    }
    json.dump(m, open(os.path.join(V, "MANIFEST.json"), "w"), indent=1)
    print("MANIFEST: %d checks, %d not_applicable" % (len(checks), len(not_app)))

if __name__ == "__main__":
    main()
