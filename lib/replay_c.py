"""./check <id> --replay <file.c>: build a recorded llsym replay program against /repo's CURRENT tree (gcc -O1, ASan+UBSan)
and run it.  The file header carries the finding, the model, the configuration and the sources it was built with.
Exit 1 + VIOLATION line when a sanitizer fires or the program fails; otherwise the byte dumps are printed for comparison
with the finding recorded in the header (the oracle itself lives in the check: re-run ./check <id> to re-decide it)."""
import os, re, sys
from vcommon import *


def main():
    pid, path = sys.argv[1], os.environ["VERIF_REPLAY"]
    head = open(path).read(6000)
    m = re.search(r"replay-config: (.*)", head)
    have, real = "all", 8
    if m:
        toks = m.group(1).split()
        have = [t[len("-DA_HAVE_"):].split("=")[0] for t in toks if t.startswith("-DA_HAVE_")]
        mr = re.search(r"A_SIZE_REAL[ =](\d+)", m.group(1))
        real = int(mr.group(1)) if mr else 8
    cfg = gen_config(real=real, have=have)
    m = re.search(r"replay-sources: (.*?) \*/", head)
    if m:
        srcs = [os.path.join(REPO, x) if x.startswith("src/") else os.path.join(VERIF, x) for x in m.group(1).split()]
    else:
        srcs = sorted(os.path.join(REPO, "src", f) for f in os.listdir(os.path.join(REPO, "src")) if f.endswith(".c"))
    exe = native_prog(cfg, path, srcs, name="replay_cli", san=True)
    rc, so, se, _ = run([exe], timeout=120, env=dict(os.environ, ASAN_OPTIONS="detect_leaks=0", UBSAN_OPTIONS="print_stacktrace=1"))
    print(head.split("*/")[0] + "*/")
    sys.stdout.write((so or "")[-4000:])
    bad = rc != 0 or "AddressSanitizer" in (se or "") or "runtime error" in (se or "")
    if bad:
        sys.stdout.write((se or "")[-1500:] + "\n")
        print("VIOLATION property=%s replay=%s" % (pid, path))
        return 1
    print("replay ran clean under ASan/UBSan on the current tree (state dumps above; the oracle is re-decided by ./check %s)" % pid)
    return 0


if __name__ == "__main__":
    sys.exit(main())
