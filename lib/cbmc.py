"""E1: CBMC on goto-cc builds of the real translation units (DESIGN.md section 1, E1)."""
import os, re, signal, subprocess, time, threading
from vcommon import *

BASE_FLAGS = ["--unwinding-assertions", "--drop-unused-functions", "--no-malloc-may-fail", "--trace"]
# CBMC 6 default checks stay on: bounds, pointer, div-by-zero, signed-overflow, undefined-shift,
# pointer-primitive. (--pointer-overflow-check is per-job: its failures never reproduce natively.)
# --no-malloc-may-fail: allocation failure is outside every E1 claim (DESIGN 1/E1).
BACKENDS = {
    "minisat": [],
    "cadical": ["--sat-solver", "cadical"],
    "kissat": ["--external-sat-solver", "kissat"],
}
HDIR = os.path.join(VERIF, "harness")


def goto_build(cfg, srcs, harness, defs=(), name=None, instrument=()):
    out = os.path.join(scratch(), (name or os.path.basename(harness)) + "." + str(abs(hash(tuple(defs) + tuple(instrument))) % 99999) + ".gb")
    cmd = ["goto-cc", "-std=c11", "-I" + HDIR] + cflags(cfg) + ["-D" + d for d in defs] + list(srcs) + [harness, "-o", out]
    tmpd = os.path.join(scratch(), "cbmc-tmp")       # goto-cc's preprocessor temporaries stay inside the run's scratch directory
    os.makedirs(tmpd, exist_ok=True)
    env = dict(os.environ, TMPDIR=tmpd)
    rc, so, se, _ = run(cmd, timeout=300, env=env)
    if rc != 0:
        raise MachineryError("goto-cc failed for %s: %s" % (harness, (se or so)[-2000:]))
    if instrument:
        rc, so, se, _ = run(["goto-instrument"] + list(instrument) + [out, out], timeout=300, env=env)
        if rc != 0:
            raise MachineryError("goto-instrument failed for %s: %s" % (harness, (se or so)[-2000:]))
    return out


class Job:
    """One harness function = one obligation. backends are raced; first definite verdict wins."""

    def __init__(self, name, gb, function, unwind=None, unwindset=None, backends=("kissat", "cadical", "minisat"),
                 timeout=300, expect="holds", flags=(), meta=None, objbits=None):
        self.name, self.gb, self.function = name, gb, function
        self.unwind, self.unwindset = unwind, unwindset
        self.backends, self.timeout, self.expect = list(backends), timeout, expect
        self.flags = list(flags)
        self.meta = meta or {}
        self.objbits = objbits
        self.verdict = None      # holds / fails / timeout / error
        self.out = ""
        self.backend = None
        self.wall = 0.0
        self.rss_kb = 0

    def cmd(self, be):
        c = ["cbmc", self.gb, "--function", self.function] + BASE_FLAGS + BACKENDS[be] + self.flags
        if self.unwind is not None:
            c += ["--unwind", str(self.unwind)]
        if self.unwindset:
            c += ["--unwindset", self.unwindset]
        if self.objbits:
            c += ["--object-bits", str(self.objbits)]
        return c


def _classify(out):
    if "VERIFICATION SUCCESSFUL" in out:
        return "holds"
    if "VERIFICATION FAILED" in out:
        return "fails"
    return None


def run_jobs(jobs, maxproc=None, log=None):
    """Run all jobs on a pool; each job starts all its back ends at once (a race), the first
    definite verdict wins and the others are killed. The time limit counts from the start of the race."""
    import concurrent.futures as cf
    workers = max(1, (maxproc or NCPU) // 2)

    def run_one(job):
        t0 = time.time()
        procs = {}
        # cbmc writes the CNF for an external SAT solver to $TMPDIR and leaves it behind when the job is killed at its
        # time limit (41 GB had piled up in /tmp): keep those files inside this run's scratch directory, which is removed at exit
        tmpd = os.path.join(scratch(), "cbmc-tmp")
        os.makedirs(tmpd, exist_ok=True)
        env = dict(os.environ, TMPDIR=tmpd)
        for be in job.backends:
            procs[be] = subprocess.Popen(["/usr/bin/time", "-f", "RSSKB %M"] + job.cmd(be), stdout=subprocess.PIPE,
                                         stderr=subprocess.PIPE, universal_newlines=True, errors="replace",
                                         preexec_fn=os.setsid, env=env)
        outs = {}
        lock = threading.Lock()

        def reader(be, p):
            so, se = p.communicate()
            with lock:
                outs[be] = (so, se)

        ths = [threading.Thread(target=reader, args=(be, p)) for be, p in procs.items()]
        for t in ths:
            t.start()
        winner = None
        while time.time() - t0 < job.timeout:
            with lock:
                for be, (so, se) in outs.items():
                    if _classify(so):
                        winner = be
                        break
                if winner or len(outs) == len(procs):
                    break
            time.sleep(0.05)
        for be, p in procs.items():
            if p.poll() is None:
                try:
                    os.killpg(p.pid, signal.SIGKILL)
                except Exception:
                    pass
        for t in ths:
            t.join()
        job.wall = time.time() - t0
        if winner is None:
            for be, (so, se) in outs.items():
                if _classify(so):
                    winner = be
        if winner:
            so, se = outs[winner]
            m = re.search(r"RSSKB (\d+)", se or "")
            job.verdict, job.out, job.backend, job.rss_kb = _classify(so), so, winner, int(m.group(1)) if m else 0
        elif job.wall >= job.timeout:
            job.verdict = "timeout"
        else:
            job.verdict = "error"
            job.out = "\n".join(((so or "") + (se or ""))[-1500:] for so, se in outs.values())
        if log:
            log("%-40s %-8s %-8s %6.1fs rss=%dMB" % (job.name, job.verdict, job.backend or "-", job.wall, job.rss_kb // 1024))

    with cf.ThreadPoolExecutor(workers) as ex:
        list(ex.map(run_one, jobs))
    return jobs


def failed_props(out):
    """[(property name, description)] of failed properties in CBMC text output."""
    res = []
    for m in re.finditer(r"^\[(\S+)\] (?:line \d+ )?(.*): FAILURE$", out, re.M):
        res.append((m.group(1), m.group(2)))
    return res


UB_FORMATION = ("pointer relation:", "pointer arithmetic:", "arithmetic overflow on pointer")


def is_formation_only(desc):
    """CBMC reports *forming* or *comparing* an out-of-bounds pointer (no access). That is
    standard-level UB which no sanitizer confirms; it is reported separately (DESIGN 3.4)."""
    return any(desc.startswith(u) or (u in desc) for u in UB_FORMATION) and "dereference" not in desc


def trace_inputs(out, function, prop=None):
    """Harness-level variable assignments from the --trace of property `prop` (or of the first trace)."""
    vals = {}
    cur_fn = None
    active = prop is None
    started = False
    for ln in out.splitlines():
        m = re.match(r"Trace for (\S+):", ln)
        if m:
            if started and prop is None:
                break
            active = (prop is None) or (m.group(1) == prop)
            started = started or active
            continue
        if not active:
            continue
        m = re.match(r"State \d+ file \S+ function (\S+) line", ln)
        if m:
            cur_fn = m.group(1)
            continue
        if cur_fn != function:
            continue
        m = re.match(r"\s+([A-Za-z_]\w*(?:\[\d+l?\])?)=.*\(([01 ]+)\)\s*$", ln)
        if m:
            name = m.group(1).replace("l]", "]")
            # first assignment wins: harness inputs are assigned once, before any call; later lines with the same
            # name are callee parameters that CBMC attributes to the calling function
            vals.setdefault(name, int(m.group(2).replace(" ", ""), 2))
    return vals


def native_replay(cfg, srcs, harness, function, vals, defs=(), tag="r"):
    """Build the harness natively (gcc, ASan+UBSan) against the current tree and run it with
    the solver's values. Returns (reproduced: bool, output)."""
    main_c = os.path.join(scratch(), "replay_%s_%s.c" % (function, tag))
    with open(main_c, "w") as f:
        f.write('#define NATIVE 1\n#include "%s"\nint main(int argc,char**argv){vin_init(argc,argv);%s();puts("REPLAY-PASS");return 0;}\n'
                % (harness, function))
    exe = native_prog(cfg, main_c, srcs, extra=["-I" + HDIR] + ["-D" + d for d in defs], name="replay_%s_%s" % (function, tag))
    args = ["%s=%d" % (k, v) for k, v in vals.items()]
    env = dict(os.environ, ASAN_OPTIONS="detect_leaks=0:abort_on_error=0", UBSAN_OPTIONS="print_stacktrace=1")
    rc, so, se, _ = run([exe] + args, timeout=120, env=env)
    txt = (so or "") + (se or "")
    reproduced = (rc != 0 and "ASSUME-FALSE" not in txt)
    return reproduced, txt, [exe] + args
