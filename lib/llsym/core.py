"""llsym core: forking symbolic executor for LLVM IR (DESIGN.md section 1, E2).

Exploration is by re-execution: a harness is an ordinary Python function h(ex); every symbolic
decision (branch, concretisation of an address/length) consults a decision prefix; at the first new
decision the solver decides which alternatives are feasible, one is followed and the others are
queued.  Heaps are therefore concrete per path; data stay symbolic (z3 terms)."""
import bisect, os, struct, sys, time
from fractions import Fraction
import z3
import ir
from ir import IntT, FloatT, PtrT, ArrT, StructT, VecT, FuncT, VoidT, sizeof, struct_offsets

M64 = (1 << 64) - 1
NEAR_TIE = Fraction(1, 10 ** 9)
ADDR_BASE = 0x5A5A00010000      # llsym object addresses live far from the small / boundary values solvers like to pick


class PathEnd(Exception):
    pass


class Infeasible(PathEnd):
    pass


class Abort(PathEnd):
    """Path ended by a recorded finding (violation, bound hit, unsupported)."""


class Finding:
    def __init__(self, kind, label, detail="", model=None, trail=None, ctx=None):
        self.kind, self.label, self.detail, self.model, self.trail, self.ctx = kind, label, detail, model or {}, trail, ctx

    def __repr__(self):
        return "<%s %s %s %s>" % (self.kind, self.label, self.detail, self.model)


class NF:
    """Non-finite float constant (inf / nan)."""
    __slots__ = ("kind", "sign")

    def __init__(self, kind, sign=1): self.kind, self.sign = kind, sign
    def __repr__(self): return ("-" if self.sign < 0 else "") + self.kind
    def __eq__(self, o): return isinstance(o, NF) and o.kind == self.kind and o.sign == self.sign
    def __hash__(self): return hash((self.kind, self.sign))


class Obj:
    __slots__ = ("base", "size", "kind", "name", "alive", "cells", "ro", "oid")

    def __init__(self, base, size, kind, name, oid):
        self.base, self.size, self.kind, self.name, self.alive = base, size, kind, name, True
        self.cells = {}
        self.ro = False
        self.oid = oid


def is_sym(v):
    return isinstance(v, z3.ExprRef)


def bv(v, bits):
    return v if is_sym(v) else z3.BitVecVal(v, bits)


def to_real(v):
    if isinstance(v, z3.ArithRef):
        return v
    if isinstance(v, Fraction):
        return z3.RealVal(v)
    if isinstance(v, int):
        return z3.RealVal(v)
    raise TypeError("to_real %r" % (v,))


def lim_r(fr):
    return z3.RealVal("%d/%d" % (fr.numerator, fr.denominator))


def bits_to_frac(x, size):
    if size == 8:
        d = struct.unpack("<d", struct.pack("<Q", x))[0]
    else:
        d = struct.unpack("<f", struct.pack("<I", x))[0]
    if d != d:
        return NF("nan")
    if d in (float("inf"), float("-inf")):
        return NF("inf", 1 if d > 0 else -1)
    return Fraction(d)


STRICT_BITS = [True]      # relaxed (nearest double) in concrete replay runs


def frac_to_bits(f, size):
    if isinstance(f, NF):
        d = float("nan") if f.kind == "nan" else f.sign * float("inf")
    else:
        d = float(f)
        if Fraction(d) != f and size == 8 and STRICT_BITS[0]:
            raise Unsupported("real value %s is not a double; cannot reinterpret as bits" % f)
    if size == 8:
        return struct.unpack("<Q", struct.pack("<d", d))[0]
    return struct.unpack("<I", struct.pack("<f", d))[0]


class Unsupported(Exception):
    pass


class RealBits:
    """The bit pattern of a symbolic real (only its sign bit can be asked for: isinf/signbit idioms)."""
    __slots__ = ("v",)

    def __init__(self, v): self.v = v


class SolverUnknown(Exception):
    pass


class Exec:
    def __init__(self, mods, solver="inc", timeout_ms=300000, max_loop=10000, concretize_limit=64):
        self.mods = mods if isinstance(mods, (list, tuple)) else [mods]
        self.funcs, self.decls, self.globals_ir = {}, {}, {}
        for m in self.mods:
            self.funcs.update(m.funcs)
            self.globals_ir.update({k: g for k, g in m.globals.items() if g.init is not None or k not in self.globals_ir})
        for m in self.mods:
            for k, d in m.decls.items():
                if k not in self.funcs:
                    self.decls[k] = d
        self.hooks = {}
        self.loop_hooks = {}
        self.solver_mode = solver
        self.timeout_ms = timeout_ms
        self.max_loop = max_loop
        self.concretize_limit = concretize_limit
        self.stats = dict(queries=0, solver_s=0.0, paths=0, instrs=0, forks=0, unknown=0)
        self.covered = set()       # (function, block label) executed on some feasible path
        self.findings = []
        self.on_fdiv0 = "finding"  # or "infeasible"
        self.concrete = None       # dict name -> value: concrete re-run under a model (replay)
        self.cut = set()           # (function, block) pairs at which a path is abandoned (stated as outside the claim)
        self.s = z3.Solver() if solver == "inc" else None
        self.inc_timeout_ms = min(timeout_ms, 8000)     # incremental attempt; a fresh solver gets the full limit
        if self.s is not None:
            self.s.set("timeout", self.inc_timeout_ms)
        install_default_hooks(self)
        self._reset_path([])

    # ------------------------------------------------------------ path state
    def _reset_path(self, prefix):
        STRICT_BITS[0] = self.concrete is None
        self.prefix, self.di, self.trail = prefix, 0, []
        self.pc = []
        self.objs, self.bases = [], []
        self.next_addr = ADDR_BASE
        self.gaddr, self.faddr, self.addr_func = {}, {}, {}
        self.sym_counter = 0
        self.name_counter = {}
        self.names = {}
        self.depth = 0
        self.trace = []          # harness-level actions (for native replay)
        self.picks = {}
        self.path_tags = []
        self.heap_live = {}
        if self.s is not None:
            self.s.reset()
            self.s.set("timeout", self.inc_timeout_ms)
        # function "addresses" first so that they are the same on every path
        for nm in sorted(set(self.funcs) | set(self.decls) | set(self.hooks)):
            self._func_addr(nm)

    def _func_addr(self, nm):
        a = self.faddr.get(nm)
        if a is None:
            o = self._new_obj(1, "func", nm)
            a = self.faddr[nm] = o.base
            self.addr_func[a] = nm
        return a

    def func_ptr(self, pyfunc_or_name, name=None):
        """Address usable as a C function pointer; calls are routed to the hook / IR function."""
        if callable(pyfunc_or_name):
            nm = name or ("pyhook_" + pyfunc_or_name.__name__)
            self.hooks[nm] = pyfunc_or_name
            return self._func_addr(nm)
        return self._func_addr(pyfunc_or_name)

    # ------------------------------------------------------------ symbols
    def _name(self, name):
        """Fresh names are numbered per base name, so that the names of harness-level inputs do not depend on how many
        auxiliary symbols (sqrt, hypot, libm results, generalisation variables) a hook created before them - those are
        created in symbolic runs only, and a global counter would give the inputs different names in the concrete re-run."""
        k = self.name_counter.get(name, 0) + 1
        self.name_counter[name] = k
        self.sym_counter += 1
        return "%s!%d" % (name, k)

    def fresh_bv(self, name, bits):
        nm = self._name(name)
        if self.concrete is not None:
            return int(self.concrete.get(nm, 0)) & ((1 << bits) - 1)
        v = z3.BitVec(nm, bits)
        self.names[nm] = v
        return v

    def fresh_real(self, name):
        nm = self._name(name)
        if self.concrete is not None:
            return Fraction(self.concrete.get(nm, 0))
        v = z3.Real(nm)
        self.names[nm] = v
        return v

    def fresh_bool(self, name):
        nm = self._name(name)
        if self.concrete is not None:
            return int(bool(self.concrete.get(nm, False)))
        v = z3.Bool(nm)
        self.names[nm] = v
        return v

    # ------------------------------------------------------------ solver
    def _check(self, extra=None):
        t0 = time.time()
        self.stats["queries"] += 1
        nra = self.s is None and self.solver_mode == "nra"
        if self.s is not None:
            r = self.s.check(*( [extra] if extra is not None else []))
        else:
            s = self._fresh_solver()
            if nra and self.timeout_ms > 10000:
                s.set("timeout", 10000)          # first attempt: 10 s of nlsat; the full limit comes after the second engine
            s.add(*self.pc)
            if extra is not None:
                s.add(extra)
            r = s.check()
            self._last = s
        dt = time.time() - t0
        self.stats["solver_s"] += dt
        if dt > self.stats.get("max_query_s", 0):
            self.stats["max_query_s"] = dt
        if r == z3.unknown:
            t1 = time.time()
            self.stats["retries"] = self.stats.get("retries", 0) + 1
            s2 = z3.Solver()
            s2.set("timeout", self.timeout_ms)
            s2.add(*self.pc)
            if extra is not None:
                s2.add(extra)
            text = s2.to_smt2()
            if os.environ.get("VERIF_DUMP"):
                with open(os.path.join(os.environ["VERIF_DUMP"], "q%d_%d.smt2" % (os.getpid(), self.stats["queries"])), "w") as fh:
                    fh.write(text)
            why = ""
            if nra:
                # second engine: the packaged z3 4.8.12 binary on the same SMT-LIB text (its nonlinear-arithmetic heuristics
                # differ from the 5.1 library's: 0.04 s on satisfiable branch-feasibility queries the library gives up on)
                r = self._external_z3(text, limit_s=30)
                if r == z3.unknown and self.timeout_ms > 10000:
                    s3 = self._fresh_solver()       # nlsat again with the full limit
                    s3.add(*self.pc)
                    if extra is not None:
                        s3.add(extra)
                    r = s3.check()
                    self._last = s3
                    why = s3.reason_unknown() if r == z3.unknown else ""
            if r == z3.unknown:
                # last: a fresh, non-incremental default solver with the full limit
                r = s2.check()
                why = s2.reason_unknown() if r == z3.unknown else ""
            self.stats["solver_s"] += time.time() - t1
            if r == z3.unknown:
                self.stats["unknown"] += 1
                raise SolverUnknown((str(extra)[:200] if extra is not None else "pc") + " reason=" + why)
        return r == z3.sat

    def _external_z3(self, text, limit_s=30):
        import subprocess, shutil
        exe = "/usr/bin/z3" if os.path.exists("/usr/bin/z3") else shutil.which("z3")
        if not exe:
            return z3.unknown
        t0 = time.time()
        try:
            p = subprocess.run([exe, "-in", "-T:%d" % limit_s], input=text, stdout=subprocess.PIPE, stderr=subprocess.PIPE,
                               universal_newlines=True, timeout=limit_s + 10)
            out = p.stdout.strip().splitlines()
        except Exception:
            out = []
        self.stats["solver_s"] += time.time() - t0
        self.stats["external_z3"] = self.stats.get("external_z3", 0) + 1
        if any("(error" in l for l in out):
            return z3.unknown
        if out and out[0] == "sat":
            return z3.sat
        if out and out[0] == "unsat":
            return z3.unsat
        return z3.unknown

    def prove(self, c, keep=None, timeout_ms=20000):
        """True when pc (or the subset selected by keep) implies c within the limit; never reports anything."""
        if isinstance(c, (bool, int)):
            return bool(c)
        if self.concrete is not None:
            c = z3.simplify(c)
            return z3.is_true(c)
        s = self._fresh_solver()
        s.set("timeout", timeout_ms)
        for q in self.pc:
            if keep is None or keep(q):
                s.add(q)
        s.add(z3.Not(c))
        t0 = time.time()
        r = s.check()
        self.stats["queries"] += 1
        self.stats["solver_s"] += time.time() - t0
        return r == z3.unsat

    def _fresh_solver(self):
        if self.solver_mode == "nra":
            s = z3.Then("simplify", "purify-arith", "propagate-values", "solve-eqs", "qfnra-nlsat").solver()
        else:
            s = z3.Solver()
        s.set("timeout", self.timeout_ms)
        return s

    def _model(self, extra=None):
        if self.concrete is not None:
            return None
        if self.s is not None:
            r = self.s.check(*([extra] if extra is not None else []))
            if r == z3.sat:
                return self.s.model()
            if r == z3.unsat:
                return None
        for attempt in (0, 1):
            s = self._fresh_solver() if attempt == 0 else z3.Solver()
            s.set("timeout", self.timeout_ms)
            s.add(*self.pc)
            if extra is not None:
                s.add(extra)
            try:
                r = s.check()
            except z3.Z3Exception:
                r = z3.unknown
            if r == z3.sat:
                return s.model()
            if r == z3.unsat:
                return None
        return None

    def add(self, c):
        if self.concrete is not None or isinstance(c, (bool, int)):
            return
        self.pc.append(c)
        if self.s is not None:
            self.s.add(c)

    def feasible(self, c):
        return self._check(c)

    def model_dict(self, m):
        d = dict(self.picks)
        if m is None:
            return d
        for nm, v in self.names.items():
            e = m.eval(v, model_completion=True)
            if z3.is_bv_value(e):
                d[nm] = e.as_long()
            elif z3.is_rational_value(e):
                d[nm] = Fraction(e.numerator_as_long(), e.denominator_as_long())
            elif z3.is_true(e) or z3.is_false(e):
                d[nm] = z3.is_true(e)
            elif z3.is_algebraic_value(e):
                a = e.approx(30)
                d[nm] = Fraction(a.numerator_as_long(), a.denominator_as_long())
            else:
                d[nm] = str(e)
        return d

    # ------------------------------------------------------------ decisions
    def branch(self, c):
        if isinstance(c, (bool, int)):
            return bool(c)
        c = z3.simplify(c)
        if z3.is_true(c):
            return True
        if z3.is_false(c):
            return False
        if self.di < len(self.prefix):
            d = self.prefix[self.di]
            self.di += 1
            self.trail.append(d)
            self.add(c if d else z3.Not(c))
            return d
        t = self.feasible(c)
        if not t:
            d = False
        else:
            f = self.feasible(z3.Not(c))
            d = True
            if f:
                self.work.append(self.trail + [False])
                self.stats["forks"] += 1
        self.trail.append(d)
        self.di += 1
        self.add(c if d else z3.Not(c))
        return d

    def assume(self, c):
        if isinstance(c, (bool, int)):
            if not c:
                raise Infeasible()
            return
        c = z3.simplify(c)
        if z3.is_true(c):
            return
        if z3.is_false(c):
            raise Infeasible()
        if self.di < len(self.prefix):
            # replaying: feasibility of the prefix was established when it was created
            self.add(c)
            return
        if not self.feasible(c):
            raise Infeasible()
        self.add(c)

    def concretize(self, v, limit=None):
        """Fork over the feasible concrete values of bit-vector v."""
        if not is_sym(v):
            return v
        v = z3.simplify(v)
        if z3.is_bv_value(v):
            return v.as_long()
        limit = limit or self.concretize_limit
        count = 0
        while True:
            if self.di < len(self.prefix):
                d = self.prefix[self.di]
            else:
                m = self._model()
                if m is None:
                    raise Infeasible()
                val = m.eval(v, model_completion=True).as_long()
                d = ("eq", val)
                if self.feasible(v != val):
                    self.work.append(self.trail + [("ne", val)])
                    self.stats["forks"] += 1
            self.di += 1
            self.trail.append(d)
            if d[0] == "eq":
                self.add(v == d[1])
                return d[1]
            self.add(v != d[1])
            count += 1
            if count > limit:
                self.finding("BOUND", "concretize-limit", "more than %d values for %s" % (limit, str(v)[:80]))
                raise Abort()

    def pick(self, options, tag="pick"):
        """Harness-level nondeterministic choice over a finite list: a decision like a branch; the chosen
        index is recorded in the model so that the choice replays concretely."""
        n = len(options)
        nm = self._name(tag)
        if n == 1:
            return options[0]
        if self.concrete is not None:
            k = int(self.concrete.get(nm, 0)) % n
        elif self.di < len(self.prefix):
            k = self.prefix[self.di][1]
            self.di += 1
            self.trail.append(("pick", k))
        else:
            k = 0
            for q in range(n - 1, 0, -1):
                self.work.append(self.trail + [("pick", q)])
            self.stats["forks"] += n - 1
            self.di += 1
            self.trail.append(("pick", 0))
        self.picks[nm] = k
        return options[k]

    # ------------------------------------------------------------ findings / obligations
    def finding(self, kind, label, detail="", model=None, ctx=None):
        f = Finding(kind, label, detail, self.model_dict(model), list(self.trail), ctx)
        f.trace = list(self.trace)
        f.tags = list(self.path_tags)
        self.findings.append(f)
        return f

    def check(self, c, label, detail="", abort=True, ctx=None):
        """Obligation: pc implies c.  Returns True when it holds."""
        self.nchecks = getattr(self, "nchecks", 0) + 1
        if isinstance(c, (bool, int)):
            ok = bool(c)
            m = self._model() if not ok else None
        else:
            c0 = c
            c = z3.simplify(c)
            if z3.is_true(c):
                if getattr(self, "force_solver", False) and self.concrete is None:
                    # decided by the solver, not by the rewriter: the negation of the original term must be unsat
                    self.nontrivial = getattr(self, "nontrivial", 0) + 1
                    if self.feasible(z3.Not(c0)):
                        self.finding("UNKNOWN", "rewriter-solver-disagreement", str(c0)[:200])
                        raise Abort()
                return True
            self.nontrivial = getattr(self, "nontrivial", 0) + 1
            if z3.is_false(c):
                ok, m = False, self._model()
            else:
                nc = z3.Not(c)
                ok = not self.feasible(nc)
                m = self._model(nc) if not ok else None
        if ok:
            return True
        self.finding("PROP", label, detail, m, ctx)
        if abort:
            raise Abort()
        self.add(c)
        return False

    def check_abs(self, c, label, terms=(), detail="", abort=True, timeout_ms=20000, lemmas=(), keep=None):
        """Obligation pc => c, first tried on a generalisation: every occurrence of the given subterms (in the path
        condition and in c) is replaced by a fresh real variable.  The generalised implication is stronger, so
        'unsat' settles the obligation; any other answer falls back to the exact query (check), which alone may
        report a finding.  lemmas: facts about those subterms that the caller has already established as obligations
        on the exact path condition; they are added to the generalised query (the rewriter may have changed the shape
        of the path condition's own constraints on the subterms, so the substitution alone can lose them).
        keep: predicate on path-condition constraints; those it rejects are left out of the first attempt (fewer
        assumptions = a stronger statement again, so 'unsat' still settles the obligation)."""
        if self.concrete is not None or isinstance(c, (bool, int)):
            return self.check(c, label, detail, abort)
        subs, seen = [], set()
        for t in terms:
            if z3.is_expr(t) and not z3.is_rational_value(t) and t.get_id() not in seen and not z3.is_const(t):
                seen.add(t.get_id())
                subs.append((t, z3.Real(self._name("abs"))))
        if subs or keep is not None:
            t0 = time.time()
            s = self._fresh_solver()
            s.set("timeout", timeout_ms)
            for q in self.pc:
                if keep is not None and not keep(q):
                    continue
                s.add(z3.substitute(q, *subs) if subs else q)
            for q in lemmas:
                if z3.is_expr(q):
                    s.add(z3.substitute(q, *subs) if subs else q)
            s.add(z3.substitute(z3.Not(c), *subs) if subs else z3.Not(c))
            r = s.check()
            self.stats["queries"] += 1
            self.stats["solver_s"] += time.time() - t0
            if r == z3.unsat:
                self.nchecks = getattr(self, "nchecks", 0) + 1
                self.nontrivial = getattr(self, "nontrivial", 0) + 1
                self.stats["generalised"] = self.stats.get("generalised", 0) + 1
                return True
            self.stats["generalisation_failed"] = self.stats.get("generalisation_failed", 0) + 1
            if os.environ.get("VERIF_DEBUG_ABS"):
                sys.stderr.write("check_abs %s: %s after %.1fs (%d terms)\n" % (label, r, time.time() - t0, len(subs)))
        return self.check(c, label, detail, abort)

    # ------------------------------------------------------------ memory
    def _new_obj(self, size, kind, name):
        base = (self.next_addr + 15) & ~15
        self.next_addr = base + max(size, 1) + 64          # red zone
        o = Obj(base, size, kind, name, len(self.objs))
        self.objs.append(o)
        self.bases.append(base)
        return o

    def alloc(self, size, kind="heap", name="", zero=False):
        o = self._new_obj(size, kind, name)
        if zero:
            for i in range(size):
                o.cells[i] = (1, 0)
        return o.base

    def obj_at(self, addr):
        i = bisect.bisect_right(self.bases, addr) - 1
        if i < 0:
            return None
        o = self.objs[i]
        if addr < o.base + max(o.size, 0) or (o.size == 0 and addr == o.base):
            return o
        return None

    def mem_error(self, what, addr, size, model=None):
        self.finding("MEM", what, "addr=%s size=%s" % (hex(addr) if isinstance(addr, int) else str(addr)[:80], size), model)
        raise Abort()

    def resolve(self, addr, size, what):
        """Concrete address of an access of `size` bytes; forks for symbolic addresses; reports MEM."""
        if is_sym(addr):
            addr = z3.simplify(addr)
            if z3.is_bv_value(addr):
                addr = addr.as_long()
        if is_sym(addr):
            live = [o for o in self.objs if o.alive and o.kind != "func" and o.size >= size]
            inside = z3.Or(*[z3.And(z3.ULE(o.base, addr), z3.ULE(addr, o.base + o.size - size)) for o in live]) if live else z3.BoolVal(False)
            if self.di >= len(self.prefix):
                m = self._model(z3.Not(inside))
                if m is not None:
                    self.finding("MEM", what + "-out-of-bounds", "symbolic address %s can leave every live object" % str(addr)[:100], m)
                    raise Abort()
                self.add(inside)
            else:
                self.add(inside)
            addr = self.concretize(addr, limit=4096)
        o = self.obj_at(addr)
        if o is None or o.kind == "func":
            self.mem_error(what + "-out-of-bounds", addr, size, self._model())
        if not o.alive:
            self.mem_error(what + "-use-after-free", addr, size, self._model())
        if addr + size > o.base + o.size:
            self.mem_error(what + "-out-of-bounds", addr, size, self._model())
        return o, addr - o.base

    def _byte_of(self, val, i, csize):
        if isinstance(val, int):
            return (val >> (8 * i)) & 0xFF
        if isinstance(val, z3.BitVecRef):
            return z3.Extract(8 * i + 7, 8 * i, val)
        if isinstance(val, z3.BoolRef):
            return z3.If(val, z3.BitVecVal(1, 8), z3.BitVecVal(0, 8)) if i == 0 else 0
        if isinstance(val, (Fraction, NF)):
            return (frac_to_bits(val, csize) >> (8 * i)) & 0xFF
        raise Unsupported("byte access to a symbolic real value")

    def _split(self, o, off):
        size, val = o.cells.pop(off)
        for i in range(size):
            o.cells[off + i] = (1, self._byte_of(val, i, size))

    def _clear(self, o, off, size):
        cells = o.cells
        for k in range(max(0, off - 15), off + size):
            c = cells.get(k)
            if c is not None and c[0] > 1 and k + c[0] > off and (k < off or k + c[0] > off + size):
                self._split(o, k)          # only cells straddling an end of the range need byte granularity
        for k in range(off, off + size):
            cells.pop(k, None)

    def store_raw(self, o, off, size, val):
        if o.ro:
            self.mem_error("write-to-constant", o.base + off, size, self._model())
        c = o.cells.get(off)
        if c is None or c[0] != size or size > 1:
            self._clear(o, off, size)
        o.cells[off] = (size, val)

    def load_raw(self, o, off, size, want_float=False):
        c = o.cells.get(off)
        if c is not None and c[0] == size:
            return c[1]
        bs = []
        for k in range(off, off + size):
            c = o.cells.get(k)
            if c is not None and c[0] == 1:
                bs.append(c[1])
                continue
            found = None
            for j in range(k - 1, max(-1, k - 16), -1):
                cj = o.cells.get(j)
                if cj is not None:
                    if j + cj[0] > k:
                        found = self._byte_of(cj[1], k - j, cj[0])
                    break
            if found is None:
                # never written: nondeterministic content
                found = self.fresh_bv("uninit_%s_%d" % (o.name or o.kind, k), 8)
                o.cells[k] = (1, found)
                self.uninit_reads = getattr(self, "uninit_reads", 0) + 1
            bs.append(found)
        if all(isinstance(b, int) for b in bs):
            v = 0
            for i, b in enumerate(bs):
                v |= b << (8 * i)
            return v
        if size == 1:
            return bs[0]
        return z3.simplify(z3.Concat(*[bv(b, 8) for b in reversed(bs)]))

    def store(self, addr, val, ty):
        size = sizeof(ty)
        if isinstance(ty, (StructT, ArrT)):
            self._store_agg(addr, val, ty)
            return
        o, off = self.resolve(addr, size, "write")
        if isinstance(ty, IntT) and ty.bits == 1:
            val = self.bool_to_bv(val, 8)
        self.store_raw(o, off, size, val)

    def _store_agg(self, addr, val, ty):
        if isinstance(ty, StructT):
            for f, fo, v in zip(ty.fields, struct_offsets(ty), val):
                self.store(addr + fo, v, f)
        else:
            es = sizeof(ty.elem)
            for i, v in enumerate(val):
                self.store(addr + i * es, v, ty.elem)

    def load(self, addr, ty):
        if isinstance(ty, StructT):
            return [self.load(addr + fo, f) for f, fo in zip(ty.fields, struct_offsets(ty))]
        if isinstance(ty, ArrT):
            es = sizeof(ty.elem)
            return [self.load(addr + i * es, ty.elem) for i in range(ty.n)]
        size = sizeof(ty)
        if is_sym(addr) and self.concrete is None and isinstance(ty, IntT):
            v = self.table_load(addr, size)
            if v is not None:
                return self.coerce(v, ty)
        o, off = self.resolve(addr, size, "read")
        v = self.load_raw(o, off, size)
        return self.coerce(v, ty)

    def table_load(self, addr, size):
        """Symbolic-index read from a constant table: an if-then-else chain instead of one path per index."""
        addr = z3.simplify(addr)
        if z3.is_bv_value(addr):
            return None
        m = self._model()
        if m is None:
            return None
        a0 = m.eval(addr, model_completion=True).as_long()
        o = self.obj_at(a0)
        if o is None or not o.ro or not o.alive or o.size < size or o.size > 4096:
            return None
        inside = z3.And(z3.ULE(o.base, addr), z3.ULE(addr, o.base + o.size - size), z3.URem(addr - o.base, size) == 0)
        if self.feasible(z3.Not(inside)):
            return None
        r = None
        for off in range(o.size - size, -1, -size):
            v = self.load_raw(o, off, size)
            if isinstance(v, int):
                t = z3.BitVecVal(v, size * 8)
            elif isinstance(v, z3.BitVecRef) and v.size() == size * 8:
                t = v                       # a table with symbolic entries (C17: arbitrary CRC table)
            else:
                return None
            r = t if r is None else z3.If(addr == o.base + off, t, r)
        return r

    def coerce(self, v, ty):
        if isinstance(ty, FloatT):
            if isinstance(v, int):
                return bits_to_frac(v, sizeof(ty))
            return v
        if isinstance(ty, IntT) and ty.bits == 1:
            if isinstance(v, int):
                return v & 1
            if isinstance(v, z3.BitVecRef):
                return z3.Extract(0, 0, v) == 1
            return v
        if isinstance(v, (Fraction, NF)):
            return frac_to_bits(v, sizeof(ty))
        if isinstance(v, z3.ArithRef):
            raise Unsupported("integer load of a symbolic real")
        if isinstance(ty, IntT) and isinstance(v, int):
            return v & ((1 << ty.bits) - 1)
        return v

    def bool_to_bv(self, v, bits):
        if isinstance(v, z3.BoolRef):
            return z3.If(v, z3.BitVecVal(1, bits), z3.BitVecVal(0, bits))
        if isinstance(v, bool):
            return int(v)
        return v

    def memcpy(self, dst, src, n, what="memcpy", overlap_ok=False):
        n = self.concretize(n, limit=256)
        if n == 0:
            return
        if n > (1 << 24):
            self.mem_error(what + "-huge-length", dst, n, self._model())
        so, soff = self.resolve(src, n, "read")
        do, doff = self.resolve(dst, n, "write")
        if do.ro:
            self.mem_error("write-to-constant", do.base + doff, n, self._model())
        if not overlap_ok and so is do and soff < doff + n and doff < soff + n and n > 0 and soff != doff:
            self.finding("MEM", "memcpy-overlap", "src=%#x dst=%#x n=%d" % (so.base + soff, do.base + doff, n), self._model())
            raise Abort()
        # snapshot source cells (split cells straddling the range boundaries)
        for edge in (soff, soff + n):
            for k in range(max(0, edge - 15), edge):
                c = so.cells.get(k)
                if c is not None and k + c[0] > edge and k < edge:
                    self._split(so, k)
        snap = [(k - soff, so.cells[k]) for k in range(soff, soff + n) if k in so.cells]
        self._clear(do, doff, n)
        for rel, c in snap:
            do.cells[doff + rel] = c

    def memset(self, dst, byte, n):
        n = self.concretize(n, limit=256)
        if n == 0:
            return
        if n > (1 << 24):
            self.mem_error("memset-huge-length", dst, n, self._model())
        o, off = self.resolve(dst, n, "write")
        if is_sym(byte):
            byte = z3.Extract(7, 0, byte) if byte.size() > 8 else byte
        else:
            byte &= 0xFF
        self._clear(o, off, n)
        for k in range(off, off + n):
            o.cells[k] = (1, byte)

    def read_bytes(self, addr, n):
        o, off = self.resolve(addr, n, "read") if n else (None, 0)
        return [self.load_raw(o, off + i, 1) for i in range(n)]

    def write_bytes(self, addr, bs):
        if not bs:
            return
        o, off = self.resolve(addr, len(bs), "write")
        self._clear(o, off, len(bs))
        for i, b in enumerate(bs):
            o.cells[off + i] = (1, b)

    # heap API used by the allocator hooks
    def malloc(self, size, name="heap"):
        a = self.alloc(size, "heap", name)
        self.heap_live[a] = size
        return a

    def free(self, addr):
        if addr == 0:
            return
        if is_sym(addr):
            addr = self.concretize(addr)
        o = self.obj_at(addr)
        if o is None or o.base != addr or o.kind != "heap":
            self.finding("MEM", "free-of-invalid-pointer", hex(addr), self._model())
            raise Abort()
        if not o.alive:
            self.finding("MEM", "double-free", hex(addr), self._model())
            raise Abort()
        o.alive = False
        self.heap_live.pop(addr, None)

    # ------------------------------------------------------------ globals
    def global_addr(self, name):
        a = self.gaddr.get(name)
        if a is not None:
            return a
        if name in self.funcs or name in self.decls or name in self.hooks:
            return self._func_addr(name)
        g = self.globals_ir.get(name)
        if g is None:
            raise Unsupported("unknown global @" + name)
        o = self._new_obj(sizeof(g.ty), "global", name)
        self.gaddr[name] = o.base
        if g.init is not None:
            self._init_const(o.base, g.ty, g.init)
        else:
            for i in range(o.size):
                o.cells[i] = (1, 0)
        o.ro = g.const
        return o.base

    def _init_const(self, addr, ty, c):
        o = self.obj_at(addr)
        off = addr - o.base
        k = c[0]
        if k == "zero" or k == "undef":
            for i in range(sizeof(ty)):
                o.cells[off + i] = (1, 0)
        elif k == "str":
            for i, b in enumerate(c[1]):
                o.cells[off + i] = (1, b)
        elif k == "agg":
            if isinstance(ty, StructT):
                for i in range(sizeof(ty)):
                    o.cells.setdefault(off + i, (1, 0))
                for (ft, fv), fo in zip(c[1], struct_offsets(ty)):
                    self._init_const(addr + fo, ft, fv)
            else:
                es = sizeof(ty.elem)
                for i, (et, ev) in enumerate(c[1]):
                    self._init_const(addr + i * es, et, ev)
        else:
            v = self.const(c, ty)
            self._clear(o, off, sizeof(ty))
            o.cells[off] = (sizeof(ty), v)

    def const(self, c, ty=None):
        k = c[0]
        if k == "c":
            v = c[1]
            if isinstance(v, tuple) and v[0] == "nonfinite":
                return NF(v[1], v[2])
            return v
        if k == "g":
            return self.global_addr(c[1])
        if k == "undef":
            return self.zero_of(ty) if ty is not None else 0
        if k == "zero":
            return self.zero_of(ty)
        if k == "cgep":
            base = self.const(c[2])
            return self.gep(c[1], base, [(None, self.const(i)) for i in c[3]])
        if k == "ccast":
            return self.const(c[3], c[2])
        if k == "cbin":
            a, b = self.const(c[3], c[2]), self.const(c[4], c[2])
            return self.binop(c[1], c[2], a, b)
        if k == "agg":
            return [self.const(v, t) for t, v in c[1]]
        raise Unsupported("constant %r" % (c,))

    def zero_of(self, ty):
        if isinstance(ty, StructT):
            return [self.zero_of(f) for f in ty.fields]
        if isinstance(ty, ArrT):
            return [self.zero_of(ty.elem) for _ in range(ty.n)]
        if isinstance(ty, FloatT):
            return Fraction(0)
        return 0

    # ------------------------------------------------------------ arithmetic
    def binop(self, op, ty, a, b):
        bits = ty.bits if isinstance(ty, IntT) else 64
        if bits == 1:
            return self.boolop(op, a, b)
        mask = (1 << bits) - 1
        if isinstance(a, int) and isinstance(b, int):
            if op == "add": return (a + b) & mask
            if op == "sub": return (a - b) & mask
            if op == "mul": return (a * b) & mask
            if op == "and": return a & b
            if op == "or": return a | b
            if op == "xor": return a ^ b
            if op == "shl": return (a << b) & mask if b < bits else 0
            if op == "lshr": return a >> b if b < bits else 0
            if op == "ashr":
                sa = a - (1 << bits) if a >> (bits - 1) else a
                return (sa >> min(b, bits - 1)) & mask
            if op in ("udiv", "urem"):
                if b == 0:
                    self.finding("UB", "integer-division-by-zero", "", self._model())
                    raise Abort()
                return a // b if op == "udiv" else a % b
            if op in ("sdiv", "srem"):
                sa = a - (1 << bits) if a >> (bits - 1) else a
                sb = b - (1 << bits) if b >> (bits - 1) else b
                if sb == 0:
                    self.finding("UB", "integer-division-by-zero", "", self._model())
                    raise Abort()
                q = abs(sa) // abs(sb)
                if (sa < 0) != (sb < 0):
                    q = -q
                return (q if op == "sdiv" else sa - q * sb) & mask
            raise Unsupported(op)
        x, y = bv(a, bits), bv(b, bits)
        if op == "add": r = x + y
        elif op == "sub": r = x - y
        elif op == "mul": r = x * y
        elif op == "and": r = x & y
        elif op == "or": r = x | y
        elif op == "xor": r = x ^ y
        elif op == "shl": r = x << y
        elif op == "lshr": r = z3.LShR(x, y)
        elif op == "ashr": r = x >> y
        elif op in ("udiv", "urem", "sdiv", "srem"):
            if self.branch(y == 0):
                self.finding("UB", "integer-division-by-zero", "", self._model())
                raise Abort()
            r = {"udiv": z3.UDiv, "urem": z3.URem, "sdiv": lambda p, q: p / q, "srem": z3.SRem}[op](x, y)
        else:
            raise Unsupported(op)
        r = z3.simplify(r)
        return r.as_long() if z3.is_bv_value(r) else r

    def boolop(self, op, a, b):
        if isinstance(a, (int, bool)) and isinstance(b, (int, bool)):
            a, b = int(a) & 1, int(b) & 1
            return {"and": a & b, "or": a | b, "xor": a ^ b, "add": a ^ b, "sub": a ^ b, "mul": a & b}[op]
        x = a if is_sym(a) else z3.BoolVal(bool(a))
        y = b if is_sym(b) else z3.BoolVal(bool(b))
        if op == "and": return z3.simplify(z3.And(x, y))
        if op == "or": return z3.simplify(z3.Or(x, y))
        if op in ("xor", "add", "sub"): return z3.simplify(z3.Xor(x, y))
        raise Unsupported("i1 " + op)

    def icmp(self, pred, ty, a, b):
        if isinstance(a, RealBits):
            if b == 0 and pred == "slt":
                r = z3.simplify(a.v < 0)
                return 1 if z3.is_true(r) else 0 if z3.is_false(r) else r
            if b == 0 and pred == "sge":
                r = z3.simplify(a.v >= 0)
                return 1 if z3.is_true(r) else 0 if z3.is_false(r) else r
            raise Unsupported("integer comparison on the bits of a symbolic real")
        bits = ty.bits if isinstance(ty, IntT) else 64
        if bits == 1:
            a, b = self.bool_to_bv(a, 1), self.bool_to_bv(b, 1)
        if isinstance(a, int) and isinstance(b, int):
            if pred[0] == "s":
                a = a - (1 << bits) if a >> (bits - 1) else a
                b = b - (1 << bits) if b >> (bits - 1) else b
            return int({"eq": a == b, "ne": a != b, "ugt": a > b, "uge": a >= b, "ult": a < b, "ule": a <= b,
                        "sgt": a > b, "sge": a >= b, "slt": a < b, "sle": a <= b}[pred])
        x, y = bv(a, bits), bv(b, bits)
        r = {"eq": lambda: x == y, "ne": lambda: x != y, "ugt": lambda: z3.UGT(x, y), "uge": lambda: z3.UGE(x, y),
             "ult": lambda: z3.ULT(x, y), "ule": lambda: z3.ULE(x, y), "sgt": lambda: x > y, "sge": lambda: x >= y,
             "slt": lambda: x < y, "sle": lambda: x <= y}[pred]()
        r = z3.simplify(r)
        if z3.is_true(r): return 1
        if z3.is_false(r): return 0
        return r

    def as_real(self, v, ty=None):
        if isinstance(v, (Fraction, z3.ArithRef, NF)):
            return v
        if isinstance(v, int):
            return bits_to_frac(v, sizeof(ty) if ty is not None else 8)
        raise Unsupported("float arithmetic on symbolic bits %s" % str(v)[:60])

    def fbin(self, op, ty, a, b):
        r = self.fbin0(op, ty, a, b)
        if getattr(self, "range_watch", None) is not None and not isinstance(r, NF):
            self.range_obl(op, r, self.as_real(b, ty))
        return r

    def range_obl(self, op, r, b):
        """Exact-real stand-in for IEEE overflow / underflow-to-zero (set by a harness through ex.range_watch = (hi, tiny)):
        every arithmetic result must stay below hi in magnitude and every divisor at or above tiny; a result >= 2^emax+1
        is an infinity in the IEEE run and a divisor below half the smallest subnormal is a zero there."""
        hi, tiny = self.range_watch
        conds = [(r, hi, True)] + ([(b, tiny, False)] if op == "fdiv" else [])
        for v, lim, upper in conds:
            if isinstance(v, Fraction):
                ok, m = (abs(v) < lim if upper else abs(v) >= lim), None
                if not ok:
                    m = self._model()
            else:
                x = to_real(v)
                bad = z3.Or(x >= lim_r(lim), x <= -lim_r(lim)) if upper else z3.And(x < lim_r(lim), x > -lim_r(lim))
                ok = not self.feasible(bad)
                m = self._model(bad) if not ok else None
            if not ok:
                self.finding("RANGE", "intermediate-result-leaves-the-floating-point-range" if upper else "divisor-underflows-to-zero",
                             "%s: %s" % (op, str(v)[:80]), m)
                if self.concrete is None:
                    raise Abort()
                return      # concrete re-run: carry on in exact arithmetic so that the final state can be compared with the IEEE run

    def fbin0(self, op, ty, a, b):
        a, b = self.as_real(a, ty), self.as_real(b, ty)
        if isinstance(a, NF) or isinstance(b, NF):
            return self.nf_arith(op, a, b)
        if isinstance(a, Fraction) and isinstance(b, Fraction):
            if op == "fadd": return a + b
            if op == "fsub": return a - b
            if op == "fmul": return a * b
            if op == "fdiv":
                if b == 0:
                    return self.fdiv0(a, b)
                return a / b
            raise Unsupported(op)
        x, y = to_real(a), to_real(b)
        if op == "fadd": return x + y
        if op == "fsub": return x - y
        if op == "fmul":
            if isinstance(a, Fraction) and a == 0 or isinstance(b, Fraction) and b == 0:
                return Fraction(0)
            return x * y
        if op == "fdiv":
            if isinstance(b, Fraction):
                return x / y
            if self.branch(y == 0):
                return self.fdiv0(a, b)
            return x / y
        raise Unsupported(op)

    def fdiv0(self, a, b):
        if self.on_fdiv0 == "infeasible":
            raise Infeasible()
        self.finding("NONFINITE", "float-division-by-zero", "dividend=%s" % str(a)[:60], self._model())
        raise Abort()

    def nf_arith(self, op, a, b):
        # only the cases the code base produces with constants: x*inf etc. end the real-domain model
        self.finding("NONFINITE", "arithmetic-on-non-finite", "%s %s %s" % (a, op, b), self._model())
        raise Abort()

    def fcmp(self, pred, ty, a, b):
        a, b = self.as_real(a, ty), self.as_real(b, ty)
        if pred == "true": return 1
        if pred == "false": return 0
        if isinstance(a, NF) or isinstance(b, NF):
            if (isinstance(a, NF) and a.kind == "nan") or (isinstance(b, NF) and b.kind == "nan"):
                return int(pred in ("une", "uno", "ueq", "ugt", "uge", "ult", "ule"))
            # infinities against finite / infinite values
            def rank(v):
                return (2 * v.sign) if isinstance(v, NF) else 0
            if isinstance(a, NF) and isinstance(b, NF) or True:
                ra, rb = rank(a), rank(b)
                if ra == rb:   # both same infinity
                    cmpv = 0
                else:
                    cmpv = -1 if ra < rb else 1
                p = pred[1:]
                if pred in ("ord",): return 1
                if pred in ("uno",): return 0
                return int({"eq": cmpv == 0, "ne": cmpv != 0, "gt": cmpv > 0, "ge": cmpv >= 0, "lt": cmpv < 0, "le": cmpv <= 0}[p])
        if pred == "ord": return 1
        if pred == "uno": return 0
        p = pred[1:]
        if isinstance(a, Fraction) and isinstance(b, Fraction):
            if self.concrete is not None and a != b and abs(a - b) <= NEAR_TIE * max(abs(a), abs(b)):
                # exact-real replay of a path whose native twin runs in IEEE doubles: a comparison this close may go the other way there
                self.near_ties = getattr(self, "near_ties", 0) + 1
            return int({"eq": a == b, "ne": a != b, "gt": a > b, "ge": a >= b, "lt": a < b, "le": a <= b}[p])
        x, y = to_real(a), to_real(b)
        r = {"eq": lambda: x == y, "ne": lambda: x != y, "gt": lambda: x > y, "ge": lambda: x >= y,
             "lt": lambda: x < y, "le": lambda: x <= y}[p]()
        r = z3.simplify(r)
        if z3.is_true(r): return 1
        if z3.is_false(r): return 0
        return r

    def cast(self, op, ft, v, tt):
        if op in ("bitcast",):
            if isinstance(ft, FloatT) and isinstance(tt, IntT):
                if isinstance(v, (Fraction, NF)):
                    return frac_to_bits(v, sizeof(ft))
                if isinstance(v, z3.ArithRef):
                    return RealBits(v)
                return v
            if isinstance(ft, IntT) and isinstance(tt, FloatT):
                if isinstance(v, int):
                    return bits_to_frac(v, sizeof(tt))
                return v
            return v
        if op in ("ptrtoint", "inttoptr"):
            fb = ft.bits if isinstance(ft, IntT) else 64
            tb = tt.bits if isinstance(tt, IntT) else 64
            if fb == tb: return v
            return self.cast("zext" if tb > fb else "trunc", ir.int_t(fb), v, ir.int_t(tb))
        if op == "zext":
            if ft.bits == 1:
                return self.bool_to_bv(v, tt.bits) if is_sym(v) else int(v) & 1
            if isinstance(v, int): return v
            return z3.simplify(z3.ZeroExt(tt.bits - ft.bits, v))
        if op == "sext":
            if ft.bits == 1:
                if is_sym(v):
                    return z3.If(v, z3.BitVecVal((1 << tt.bits) - 1, tt.bits), z3.BitVecVal(0, tt.bits))
                return ((1 << tt.bits) - 1) if v else 0
            if isinstance(v, int):
                if v >> (ft.bits - 1): v |= ((1 << tt.bits) - 1) ^ ((1 << ft.bits) - 1)
                return v
            return z3.simplify(z3.SignExt(tt.bits - ft.bits, v))
        if op == "trunc":
            if tt.bits == 1:
                if isinstance(v, int): return v & 1
                return z3.simplify(z3.Extract(0, 0, v) == 1)
            if isinstance(v, int): return v & ((1 << tt.bits) - 1)
            r = z3.simplify(z3.Extract(tt.bits - 1, 0, v))
            return r.as_long() if z3.is_bv_value(r) else r
        if op in ("sitofp", "uitofp"):
            if ft.bits == 1:
                v = self.bool_to_bv(v, 8)
                ft = ir.int_t(8)
            if isinstance(v, int):
                if op == "sitofp" and v >> (ft.bits - 1): v -= 1 << ft.bits
                return Fraction(v)
            return z3.ToReal(z3.BV2Int(v, is_signed=(op == "sitofp")))
        if op in ("fpext", "fptrunc"):
            return v
        if op in ("fptosi", "fptoui"):
            v = self.as_real(v, ft)
            if isinstance(v, Fraction):
                q = int(v)  # truncation toward zero
                return q & ((1 << tt.bits) - 1)
            raise Unsupported("fptosi of symbolic real")
        raise Unsupported("cast " + op)

    def gep(self, bt, base, idx):
        """idx: list of (type, value)."""
        off = 0
        symoff = None
        ty = bt
        first = True
        for it, iv in idx:
            ib = it.bits if isinstance(it, IntT) else 64
            if isinstance(iv, int):
                if ib < 64 and iv >> (ib - 1):
                    iv = (iv - (1 << ib)) & M64
            elif ib < 64:
                iv = z3.SignExt(64 - ib, iv)
            if first:
                es = sizeof(ty)
                first = False
            elif isinstance(ty, StructT):
                if not isinstance(iv, int):
                    raise Unsupported("symbolic struct index")
                off += struct_offsets(ty)[iv]
                ty = ty.fields[iv]
                continue
            elif isinstance(ty, (ArrT, VecT)):
                ty = ty.elem
                es = sizeof(ty)
            else:
                raise Unsupported("gep into %r" % (ty,))
            if isinstance(iv, int):
                if iv >> 63: iv -= 1 << 64
                off += iv * es
            else:
                term = iv * es
                symoff = term if symoff is None else symoff + term
        if symoff is None and isinstance(base, int):
            return (base + off) & M64
        r = bv(base, 64) + z3.BitVecVal(off & M64, 64)
        if symoff is not None:
            r = r + symoff
        r = z3.simplify(r)
        return r.as_long() if z3.is_bv_value(r) else r

    # ------------------------------------------------------------ interpreter
    def call(self, name, *args):
        """Call an IR function / hook by name with already evaluated arguments."""
        h = self.hooks.get(name)
        if h is not None:
            return h(self, *args)
        f = self.funcs.get(name)
        if f is None:
            raise Unsupported("call to undefined function @" + name)
        return self.run(f, list(args))

    def call_ptr(self, fp, *args):
        if is_sym(fp):
            fp = self.concretize(fp)
        nm = self.addr_func.get(fp)
        if nm is None:
            self.finding("MEM", "call-through-invalid-function-pointer", hex(fp), self._model())
            raise Abort()
        return self.call(nm, *args)

    def val(self, op, regs, ty=None):
        k = op[0]
        if k == "r":
            return regs[op[1]]
        if k == "c":
            v = op[1]
            if v.__class__ is tuple:
                return NF(v[1], v[2])
            return v
        return self.const(op, ty)

    def run(self, f, args):
        self.depth += 1
        if self.depth > 200:
            raise Unsupported("call depth")
        regs = {}
        for (t, rn), a in zip(f.params, args):
            regs[rn] = a
        if f.vararg:
            regs["%vararg"] = args[len(f.params):]
        allocas = []
        cur, prev = f.entry, None
        visits = {}
        fname = f.name
        covered = self.covered
        try:
            while True:
                n = visits.get(cur, 0) + 1
                visits[cur] = n
                if self.cut and (fname, cur) in self.cut:
                    lim = self.cut[(fname, cur)] if isinstance(self.cut, dict) else 0
                    if n > lim:            # abandon the path at the (lim+1)-th visit of a cut block
                        self.stats["cut"] = self.stats.get("cut", 0) + 1
                        raise Infeasible()
                covered.add((fname, cur))
                if n > self.max_loop:
                    self.finding("BOUND", "loop-bound", "%s %s more than %d iterations" % (fname, cur, self.max_loop))
                    raise Abort()
                insts = f.blocks[cur]
                # phis read their inputs simultaneously
                i = 0
                if insts and insts[0][0] == "phi":
                    newv = {}
                    while i < len(insts) and insts[i][0] == "phi":
                        ins = insts[i]
                        newv[ins[1]] = self.val(ins[3][prev], regs, ins[2])
                        i += 1
                    regs.update(newv)
                if self.loop_hooks and (fname, cur) in self.loop_hooks:
                    # loop-invariant reasoning: the hook sees the values arriving at the header (visit n) and may replace
                    # them by fresh symbols (havoc) or end the path
                    self.loop_hooks[(fname, cur)](self, n, [(ins[1], ins[2]) for ins in insts[:i]], regs)
                self.stats["instrs"] += len(insts)
                nxt = None
                for ins in insts[i:]:
                    op = ins[0]
                    if op == "load":
                        regs[ins[1]] = self.load(self.val(ins[3], regs), ins[2])
                    elif op == "store":
                        self.store(self.val(ins[4], regs), self.val(ins[3], regs, ins[2]), ins[2])
                    elif op == "gep":
                        regs[ins[1]] = self.gep(ins[2], self.val(ins[3], regs), [(t, self.val(v, regs, t)) for t, v in ins[4]])
                    elif op == "bin":
                        regs[ins[1]] = self.binop(ins[2], ins[3], self.val(ins[4], regs, ins[3]), self.val(ins[5], regs, ins[3]))
                    elif op == "icmp":
                        regs[ins[1]] = self.icmp(ins[2], ins[3], self.val(ins[4], regs, ins[3]), self.val(ins[5], regs, ins[3]))
                    elif op == "cast":
                        regs[ins[1]] = self.cast(ins[2], ins[3], self.val(ins[4], regs, ins[3]), ins[5])
                    elif op == "br":
                        nxt = ins[2]
                        break
                    elif op == "cbr":
                        nxt = ins[3] if self.branch(self.val(ins[2], regs)) else ins[4]
                        break
                    elif op == "call":
                        r = self.do_call(ins, regs)
                        if ins[1] is not None:
                            regs[ins[1]] = r
                    elif op == "ret":
                        return None if ins[2] is None else self.val(ins[3], regs, ins[2])
                    elif op == "fbin":
                        regs[ins[1]] = self.fbin(ins[2], ins[3], self.val(ins[4], regs, ins[3]), self.val(ins[5], regs, ins[3]))
                    elif op == "fcmp":
                        regs[ins[1]] = self.fcmp(ins[2], ins[3], self.val(ins[4], regs, ins[3]), self.val(ins[5], regs, ins[3]))
                    elif op == "fneg":
                        v = self.as_real(self.val(ins[3], regs, ins[2]), ins[2])
                        regs[ins[1]] = NF(v.kind, -v.sign) if isinstance(v, NF) else -v
                    elif op == "select":
                        c = self.val(ins[3], regs)
                        a, b = self.val(ins[4], regs, ins[2]), self.val(ins[5], regs, ins[2])
                        regs[ins[1]] = self.select(c, a, b, ins[2])
                    elif op == "alloca":
                        cnt = self.val(ins[3], regs)
                        a = self.alloc(sizeof(ins[2]) * cnt, "stack", "%s:%s" % (fname, ins[1]))
                        allocas.append(a)
                        regs[ins[1]] = a
                    elif op == "switch":
                        v = self.val(ins[3], regs, ins[2])
                        if is_sym(v):
                            v = self.concretize(v)
                        nxt = ins[4]
                        for cv, lab in ins[5]:
                            if cv == v:
                                nxt = lab
                                break
                        break
                    elif op == "extractvalue":
                        v = self.val(ins[3], regs, ins[2])
                        for k in ins[4]:
                            v = v[k]
                        regs[ins[1]] = v
                    elif op == "insertvalue":
                        agg = self.val(ins[3], regs, ins[2])
                        agg = self._copy_agg(agg if agg is not None else self.zero_of(ins[2]))
                        tgt = agg
                        for k in ins[6][:-1]:
                            tgt = tgt[k]
                        tgt[ins[6][-1]] = self.val(ins[5], regs, ins[4])
                        regs[ins[1]] = agg
                    elif op == "unreachable":
                        self.finding("UB", "unreachable-executed", fname + " " + cur, self._model())
                        raise Abort()
                    else:
                        raise Unsupported("instruction " + op)
                if nxt is None:
                    raise Unsupported("block without terminator in " + fname)
                prev, cur = cur, nxt
        finally:
            self.depth -= 1
            for a in allocas:
                o = self.obj_at(a)
                if o is not None:
                    o.alive = False

    def _copy_agg(self, a):
        return [self._copy_agg(x) if isinstance(x, list) else x for x in a]

    def select(self, c, a, b, ty):
        if isinstance(c, (int, bool)):
            return a if c else b
        c = z3.simplify(c)
        if z3.is_true(c): return a
        if z3.is_false(c): return b
        if isinstance(ty, FloatT):
            a, b = self.as_real(a, ty), self.as_real(b, ty)
            if isinstance(a, NF) or isinstance(b, NF) or getattr(self, "branch_real_select", False):
                return a if self.branch(c) else b       # real domain: a decision instead of an if-then-else term (nlsat does badly on those)
            return z3.If(c, to_real(a), to_real(b))
        if isinstance(ty, IntT) and ty.bits == 1:
            x = a if is_sym(a) else z3.BoolVal(bool(a))
            y = b if is_sym(b) else z3.BoolVal(bool(b))
            return z3.If(c, x, y)
        if isinstance(ty, (StructT, ArrT)):
            return a if self.branch(c) else b
        bits = ty.bits if isinstance(ty, IntT) else 64
        return z3.If(c, bv(a, bits), bv(b, bits))

    def do_call(self, ins, regs):
        callee = ins[3]
        args = [self.val(v, regs, t) for t, v in ins[4]]
        if callee[0] == "g":
            return self.call(callee[1], *args)
        if callee[0] == "r":
            return self.call_ptr(regs[callee[1]], *args)
        if callee[0] == "ccast":
            inner = callee[3]
            if inner[0] == "g":
                return self.call(inner[1], *args)
        raise Unsupported("callee %r" % (callee,))


# ------------------------------------------------------------------ default environment
def install_default_hooks(ex):
    H = ex.hooks

    def h_malloc(ex, n):
        n = ex.concretize(n, limit=64)
        if n > (1 << 30):
            return 0
        return ex.malloc(n)

    def h_free(ex, p):
        ex.free(p)

    def h_realloc(ex, p, n):
        if is_sym(p):
            p = ex.concretize(p)
        n = ex.concretize(n, limit=64)
        if p == 0:
            return h_malloc(ex, n)
        if n == 0:
            ex.free(p)
            return 0
        if n > (1 << 30):
            return 0
        o = ex.obj_at(p)
        if o is None or o.base != p or o.kind != "heap" or not o.alive:
            ex.finding("MEM", "realloc-of-invalid-pointer", hex(p), ex._model())
            raise Abort()
        q = ex.malloc(n)
        k = min(n, o.size)
        if k:
            ex.memcpy(q, p, k, "realloc")
        ex.free(p)
        return q

    def h_memcpy(ex, d, s, n, *rest):
        ex.memcpy(d, s, n)
        return d

    def h_memmove(ex, d, s, n, *rest):
        ex.memcpy(d, s, n, "memmove", overlap_ok=True)
        return d

    def h_memset(ex, d, b, n, *rest):
        ex.memset(d, b, n)
        return d

    def h_assume(ex, c):
        ex.check(c, "A_ASSUME-can-be-false", "llvm.assume operand is not implied by the path condition")

    def h_fabs(ex, x):
        x = ex.as_real(x)
        if isinstance(x, Fraction): return abs(x)
        if isinstance(x, NF): return NF(x.kind, 1)
        if getattr(ex, "branch_real_select", False):
            return x if ex.branch(x >= 0) else z3.simplify(-x)
        return z3.If(x >= 0, x, -x)

    def h_fmuladd(ex, a, b, c):
        return ex.fbin("fadd", ir.F64, ex.fbin("fmul", ir.F64, a, b), c)

    def h_sqrt(ex, x):
        x = ex.as_real(x)
        if isinstance(x, NF):
            return x
        if isinstance(x, Fraction):
            if x < 0:
                return NF("nan")
            n, d = x.numerator, x.denominator
            import math
            rn, rd = math.isqrt(n), math.isqrt(d)
            if rn * rn == n and rd * rd == d:
                return Fraction(rn, rd)
        if isinstance(x, Fraction):
            import math
            if ex.concrete is not None:
                return Fraction(math.sqrt(float(x)))
        if ex.branch(to_real(x) < 0):
            return NF("nan")
        y = ex.fresh_real("sqrt")
        ex.add(y >= 0)
        ex.add(y * y == to_real(x))
        return y

    def mk_ctlz(bits):
        def h_ctlz(ex, x, zero_undef=0):
            if is_sym(x):
                r = z3.BitVecVal(bits, bits)
                for i in range(bits):
                    r = z3.If(z3.Extract(i, i, x) == 1, z3.BitVecVal(bits - 1 - i, bits), r)
                return z3.simplify(r)
            return bits - x.bit_length()
        return h_ctlz

    def h_memcmp(ex, a, b, n):
        n = ex.concretize(n, limit=64)
        xa, xb = ex.read_bytes(a, n) if n else [], ex.read_bytes(b, n) if n else []
        for p, q in zip(xa, xb):
            if isinstance(p, int) and isinstance(q, int):
                if p != q:
                    return (1 if p > q else -1) & 0xFFFFFFFF
                continue
            if ex.branch(bv(p, 8) == bv(q, 8)):
                continue
            return 1 if ex.branch(z3.UGT(bv(p, 8), bv(q, 8))) else 0xFFFFFFFF
        return 0

    def h_strlen(ex, s):
        if is_sym(s):
            s = ex.concretize(s)
        n = 0
        while True:
            o, off = ex.resolve(s + n, 1, "read")
            b = ex.load_raw(o, off, 1)
            if isinstance(b, int):
                if b == 0:
                    return n
            elif ex.branch(b == 0):
                return n
            n += 1
            if n > 4096:
                ex.finding("BOUND", "strlen-bound")
                raise Abort()

    def h_memchr(ex, s, c, n):
        n = ex.concretize(n, limit=64)
        c = c & 0xFF if isinstance(c, int) else z3.Extract(7, 0, c)
        if is_sym(s):
            s = ex.concretize(s)
        bs = ex.read_bytes(s, n) if n else []
        if all(isinstance(b, int) for b in bs) and isinstance(c, int):
            for i, b in enumerate(bs):
                if b == c:
                    return s + i
            return 0
        # symbolic: one value (pointer to the first match or null) instead of one path per position
        r = z3.BitVecVal(0, 64)
        for i in range(n - 1, -1, -1):
            r = z3.If(bv(bs[i], 8) == bv(c, 8), z3.BitVecVal(s + i, 64), r)
        return z3.simplify(r)

    H.update({"malloc": h_malloc, "free": h_free, "realloc": h_realloc,
              "llvm.memcpy.p0i8.p0i8.i64": h_memcpy, "llvm.memmove.p0i8.p0i8.i64": h_memmove,
              "llvm.memset.p0i8.i64": h_memset, "memcpy": h_memcpy, "memmove": h_memmove, "memset": h_memset,
              "llvm.assume": h_assume, "llvm.fabs.f64": h_fabs, "fabs": h_fabs, "llvm.fmuladd.f64": h_fmuladd,
              "sqrt": h_sqrt, "llvm.sqrt.f64": h_sqrt, "memcmp": h_memcmp, "strlen": h_strlen, "memchr": h_memchr,
              "llvm.ctlz.i32": mk_ctlz(32), "llvm.ctlz.i64": mk_ctlz(64),
              "llvm.va_end": lambda ex, *a: None, "llvm.dbg.declare": lambda ex, *a: None, "llvm.dbg.value": lambda ex, *a: None,
              "llvm.lifetime.start.p0i8": lambda ex, *a: None, "llvm.lifetime.end.p0i8": lambda ex, *a: None})


def var_names(e, _cache={}):
    """names of the uninterpreted constants in a z3 term"""
    k = e.get_id()
    if k in _cache:
        return _cache[k]
    out, seen, todo = set(), set(), [e]
    while todo:
        t = todo.pop()
        i = t.get_id()
        if i in seen:
            continue
        seen.add(i)
        if z3.is_const(t) and t.decl().kind() == z3.Z3_OP_UNINTERPRETED:
            out.add(t.decl().name())
        todo.extend(t.children())
    _cache[k] = out
    return out


# ------------------------------------------------------------------ exploration driver
def explore(ex, harness, max_paths=200000, time_budget=None, stop_on_finding=False, on_path_end=None):
    """Run harness(ex) over all feasible decision sequences. Returns summary dict."""
    ex.work = [[]]
    t0 = time.time()
    paths = completed = infeasible = aborted = 0
    status = "exhausted"
    while ex.work:
        if paths >= max_paths:
            status = "path-budget"
            break
        if time_budget is not None and time.time() - t0 > time_budget:
            status = "time-budget"
            break
        prefix = ex.work.pop()
        ex._reset_path(prefix)
        paths += 1
        nf = len(ex.findings)
        try:
            harness(ex)
            completed += 1
            if on_path_end:
                on_path_end(ex)
        except Infeasible:
            infeasible += 1
        except Abort:
            aborted += 1
        except SolverUnknown as e:
            ex.findings.append(Finding("UNKNOWN", "solver-unknown", str(e), {}, list(ex.trail)))
            aborted += 1
        except Unsupported as e:
            ex.findings.append(Finding("UNSUPPORTED", "unsupported", str(e), {}, list(ex.trail)))
            aborted += 1
        if stop_on_finding and len(ex.findings) > nf and any(f.kind in ("PROP", "MEM", "UB", "NONFINITE") for f in ex.findings[nf:]):
            status = "stopped-on-finding"
            break
    ex.stats["paths"] += paths
    return dict(status=status, paths=paths, completed=completed, infeasible=infeasible, aborted=aborted,
                wall_s=time.time() - t0, remaining=len(ex.work))
