"""Harness-level action trace -> C program -> native run against the current tree (DESIGN 3.2/3.4).

A harness performs its externally visible actions through Tr (alloc / store / call). Under a model
(counterexample or reachability witness) the recorded actions are concrete and are emitted as a C
program using only the library's functions plus the callbacks the harness declares in C.  The native
program dumps the bytes of every harness-owned object after each call; the same dump is produced from
a *concrete* re-run in llsym with the model's values; they must agree (pointers compared as
object+offset, never-written bytes ignored, doubles to 1e-9 relative)."""
import os, struct, json
from fractions import Fraction
import z3
import core, ir
from ir import IntT, FloatT, PtrT, StructT, VoidT
from vcommon import *


class Tr:
    """Recorder bound to one Exec path."""

    def __init__(self, ex, c_prelude=""):
        self.ex = ex
        self.objs = []          # (addr, size, name)
        self.acts = []
        self.c_prelude = c_prelude
        self.step = 0
        self.dumps, self.rets = {}, {}
        ex.tr = self

    # -- actions
    def alloc(self, size, name="o", zero=False):
        a = self.ex.malloc(size, name)
        if zero:
            self.ex.memset(a, 0, size)
        self.objs.append((a, size, name))
        self.acts.append(("alloc", len(self.objs) - 1, size, zero))
        return a

    def adopt(self, addr, size, name):
        """Register an object allocated by the library itself (so that dumps include it)."""
        if any(a == addr for a, _, _ in self.objs):
            return
        e = self.enc(addr)
        self.objs.append((addr, size, name))
        self.acts.append(("adopt", len(self.objs) - 1, e, size))

    def owned(self, v):
        return any(a <= v < a + max(sz, 1) for a, sz, _ in self.objs)

    def adopt_ret(self, r, step):
        """A call returned a pointer into an object the library allocated: make it a replay object
        located relative to that return value."""
        o = self.ex.obj_at(r) if isinstance(r, int) and r >= core.ADDR_BASE else None
        if o is None or o.kind != "heap" or self.owned(r):
            return
        self.objs.append((o.base, o.size, "lib"))
        self.acts.append(("adopt_ret", len(self.objs) - 1, step, r - o.base, o.size))

    def adopt_mem(self, where, name="lib"):
        """The pointer stored at address `where` designates a library-allocated block: adopt it."""
        v = self.ex.load(where, ir.int_t(64))
        o = self.ex.obj_at(v) if isinstance(v, int) and v >= core.ADDR_BASE else None
        if o is None or o.kind != "heap" or self.owned(v):
            return
        e = self.enc(where)
        self.objs.append((o.base, o.size, name))
        self.acts.append(("adopt_mem", len(self.objs) - 1, e, v - o.base, o.size))

    def enc(self, v):
        if isinstance(v, (Fraction,)):
            return ("f", v)
        if isinstance(v, core.NF):
            return ("nf", v.kind, v.sign)
        if isinstance(v, z3.ArithRef):
            return ("sr", v)
        if core.is_sym(v):
            return ("s", v)
        if isinstance(v, tuple) and v and v[0] == "fn":
            return v
        for i, (a, size, _) in enumerate(self.objs):
            if a <= v <= a + size and v != 0:
                return ("p", i, v - a)
        nm = self.ex.addr_func.get(v)
        if nm is not None:
            return ("fn", nm)
        if v >= core.ADDR_BASE and self.ex.obj_at(v) is not None:
            return ("op", v)        # pointer into an object the library allocated itself: opaque
        return ("i", v)

    def store(self, addr, val, size=8, isfloat=False):
        ex = self.ex
        t = ir.F64 if isfloat else ir.int_t(size * 8)
        ex.store(addr, val, t)
        self.acts.append(("store", self.enc(addr), size, self.enc(val), isfloat))

    def store_bytes(self, addr, bs):
        self.ex.write_bytes(addr, bs)
        for i, b in enumerate(bs):
            self.acts.append(("store", self.enc(addr + i), 1, self.enc(b), False))

    def call(self, fname, *args, ret="i64", cnames=None):
        """ret: 'void' | 'i32' | 'i64' | 'ptr' | 'f64' | 'cpx'. Function-pointer args may be given as
        ('fn', c_name, llsym_addr)."""
        ex = self.ex
        real = []
        encs = []
        for a in args:
            if isinstance(a, tuple) and a and a[0] == "fn":
                real.append(a[2])
                encs.append(("fn", a[1]))
            else:
                real.append(a)
                encs.append(self.enc(a))
        idx = len(self.acts)
        self.acts.append(("call", fname, encs, ret, None))
        self.step += 1
        step = self.step
        r = ex.call(fname, *real)
        if ret == "ptr":
            self.adopt_ret(r, step)
        er = self.enc_ret(r, ret)
        self.acts[idx] = ("call", fname, encs, ret, er)
        if ex.concrete is not None:
            self.rets[step] = er
            self.dumps[step] = llsym_dump(ex, self)
        return r

    def enc_ret(self, r, ret):
        if ret == "void" or r is None:
            return None
        if ret == "cpx":
            return ("cpx", self.enc(r[0]), self.enc(r[1]))
        if isinstance(r, z3.BoolRef):
            r = self.ex.bool_to_bv(r, 8)
        return self.enc(r)

    def note(self, text):
        self.acts.append(("note", text))


def concretize(acts, model):
    """Evaluate symbolic parts of the actions under a z3 model."""
    def ev(e):
        if e is None:
            return None
        k = e[0]
        if k == "s":
            v = model.eval(e[1], model_completion=True)
            if z3.is_bv_value(v):
                return ("i", v.as_long())
            if z3.is_true(v) or z3.is_false(v):
                return ("i", int(z3.is_true(v)))
            return ("i", 0)
        if k == "sr":
            v = model.eval(e[1], model_completion=True)
            if z3.is_rational_value(v):
                return ("f", Fraction(v.numerator_as_long(), v.denominator_as_long()))
            if z3.is_algebraic_value(v):
                a = v.approx(40)
                return ("f", Fraction(a.numerator_as_long(), a.denominator_as_long()))
            return ("f", Fraction(0))
        if k == "cpx":
            return ("cpx", ev(e[1]), ev(e[2]))
        return e
    out = []
    for a in acts:
        if a[0] == "store":
            out.append(("store", ev(a[1]), a[2], ev(a[3]), a[4]))
        elif a[0] == "call":
            out.append(("call", a[1], [ev(x) for x in a[2]], a[3], ev(a[4])))
        elif a[0] == "adopt":
            out.append(("adopt", a[1], ev(a[2]), a[3]))
        else:
            out.append(a)
    return out


CT = {"i32": "uint32_t", "i64": "uint64_t", "ptr": "void*", "f64": "double", "void": "void", "i8": "uint8_t", "i16": "uint16_t"}


def c_expr(e, as_float=False):
    k = e[0]
    if k == "i" or k == "op":
        return "0x%xull" % (e[1] & ((1 << 64) - 1))
    if k == "p":
        return "((uint64_t)(uintptr_t)((char*)O[%d]+%d))" % (e[1], e[2])
    if k == "fn":
        return "((uint64_t)(uintptr_t)&%s)" % e[1]
    if k == "f":
        return float(e[1]).hex()
    if k == "nf":
        return ("-" if e[2] < 0 else "") + ("INFINITY" if e[1] == "inf" else "NAN")
    raise ValueError(e)


def gen_c(ex, acts, nobj, prelude, sigs, dumps=None):
    """sigs: fname -> (ret ctype, [param ctypes]) derived from the IR."""
    L = ["#include <stdint.h>", "#include <stdio.h>", "#include <stdlib.h>", "#include <string.h>", "#include <math.h>",
         "typedef struct { double re, im; } vcpx;", "static void *O[%d]; static size_t OS[%d]; static uint64_t R[%d];" % (
             max(nobj, 1), max(nobj, 1), sum(1 for a in acts if a[0] == "call") + 2), prelude]
    decl = set()
    for a in acts:
        if a[0] == "call" and a[1] not in decl:
            decl.add(a[1])
            rt, ps = sigs[a[1]][:2]
            va = len(sigs[a[1]]) > 2 and sigs[a[1]][2]
            L.append("extern %s %s(%s%s);" % (rt, a[1], ", ".join(ps) if ps else ("void" if not va else ""), ", ..." if va else ""))
    L.append("""static void dump(int step, unsigned long long alive){ for(int k=0;k<%d;k++){ if(!O[k] || !((alive>>k)&1)) continue; printf("D %%d %%d ",step,k);
  for(size_t j=0;j<OS[k];j++) printf("%%02x",((unsigned char*)O[k])[j]); printf("\\n"); }
  printf("A %%d",step); for(int k=0;k<%d;k++) printf(" %%llx",(unsigned long long)(uintptr_t)O[k]); printf("\\n"); }""" % (nobj, nobj))
    L.append("int main(void){ setvbuf(stdout,0,_IONBF,0);")
    step = 0
    pending = [None]

    def flush():
        if pending[0] is not None:
            L.append(pending[0])
            pending[0] = None
    for a in acts:
        k = a[0]
        if not k.startswith("adopt"):
            flush()
        if k == "alloc":
            L.append("  O[%d]=%s; OS[%d]=%d;" % (a[1], ("calloc(1,%d)" if a[3] else "malloc(%d)") % max(a[2], 1), a[1], a[2]))
            if not a[3]:
                L.append("  memset(O[%d],0xCD,%d);" % (a[1], max(a[2], 1)))
        elif k == "adopt":
            L.append("  O[%d]=(void*)(uintptr_t)%s; OS[%d]=%d;" % (a[1], c_expr(a[2]), a[1], a[3]))
        elif k == "adopt_ret":
            L.append("  O[%d]=R[%d] ? (char*)(uintptr_t)R[%d]-%d : 0; OS[%d]=%d;" % (a[1], a[2], a[2], a[3], a[1], a[4]))
        elif k == "adopt_mem":
            L.append("  { uint64_t v_=*(uint64_t*)(uintptr_t)%s; O[%d]=v_ ? (char*)(uintptr_t)v_-%d : 0; OS[%d]=%d; }" % (c_expr(a[2]), a[1], a[3], a[1], a[4]))
        elif k == "store":
            if a[4]:
                L.append("  *(double*)(uintptr_t)%s = %s;" % (c_expr(a[1]), c_expr(a[3]) if a[3][0] in ("f", "nf") else "0"))
            else:
                ct = {1: "uint8_t", 2: "uint16_t", 4: "uint32_t", 8: "uint64_t"}[a[2]]
                L.append("  *(%s*)(uintptr_t)%s = (%s)%s;" % (ct, c_expr(a[1]), ct, c_expr(a[3])))
        elif k == "call":
            rt, ps = sigs[a[1]][:2]
            ps = list(ps) + ["void*" if e[0] in ("p", "fn", "op") else "uint64_t" for e in a[2][len(ps):]]
            args = []
            for e, pt in zip(a[2], ps):
                if pt == "double":
                    args.append(c_expr(e) if e[0] in ("f", "nf") else "0.0")
                elif pt.endswith("*") or "(*" in pt:
                    args.append("(%s)(uintptr_t)%s" % (pt if "(*" not in pt else "void*", c_expr(e)))
                else:
                    args.append("(%s)%s" % (pt, c_expr(e)))
            call = "%s(%s)" % (a[1], ", ".join(args))
            step += 1
            if rt == "void":
                L.append("  %s; printf(\"R %d void\\n\");" % (call, step))
            elif rt == "double":
                L.append("  { double r=%s; printf(\"R %d f %%a\\n\", r); }" % (call, step))
            elif rt == "vcpx":
                L.append("  { vcpx r=%s; printf(\"R %d c %%a %%a\\n\", r.re, r.im); }" % (call, step))
            else:
                L.append("  { uint64_t r=(uint64_t)%s; R[%d]=r; printf(\"R %d i %%llx\\n\", (unsigned long long)r); }" % (call, step, step))
            mask = (1 << 64) - 1
            if dumps is not None and step in dumps:
                mask = 0
                for oi, d in enumerate(dumps[step]):
                    if d[3] and oi < 64:
                        mask |= 1 << oi
            pending[0] = "  dump(%d, 0x%xull);" % (step, mask)
        elif k == "note":
            L.append("  /* %s */" % a[1].replace("*/", "* /"))
    flush()
    L.append("  puts(\"END\"); return 0; }")
    return "\n".join(L)


def ir_sigs(ex):
    def ct(t):
        if isinstance(t, VoidT): return "void"
        if isinstance(t, IntT): return {1: "uint8_t", 8: "uint8_t", 16: "uint16_t", 32: "uint32_t", 64: "uint64_t"}[t.bits]
        if isinstance(t, FloatT): return "double" if t.kind == "double" else "float"
        if isinstance(t, PtrT): return "void*"
        if isinstance(t, StructT) and t.fields and len(t.fields) == 2 and all(isinstance(f, FloatT) for f in t.fields): return "vcpx"
        return "uint64_t"
    sigs = {"free": ("void", ["void*"], False), "malloc": ("void*", ["uint64_t"], False)}
    for nm, f in list(ex.funcs.items()) + list(ex.decls.items()):
        sigs[nm] = (ct(f.ret), [ct(t) for t, _ in f.params], f.vararg)
    return sigs


def llsym_dump(ex, tr):
    """Per-object list of cells in llsym memory (after a concrete run)."""
    out = []
    for (a, size, name) in tr.objs:
        o = ex.obj_at(a)
        out.append((a, size, dict(o.cells) if o is not None else {}, o.alive if o is not None else False))
    return out


def compare(ex, tr, native_out, conc_acts, dumps_by_step, rets_by_step, tol=1e-9):
    """Compare native output with the concrete llsym run. Returns (ok, list of differences)."""
    diffs = []
    nat_d, nat_a, nat_r = {}, {}, {}
    for ln in native_out.splitlines():
        p = ln.split()
        if not p:
            continue
        if p[0] == "D":
            nat_d[(int(p[1]), int(p[2]))] = bytes.fromhex(p[3]) if len(p) > 3 else b""
        elif p[0] == "A":
            nat_a[int(p[1])] = [int(x, 16) for x in p[2:]]
        elif p[0] == "R":
            nat_r[int(p[1])] = p[2:]
    for step, exp in rets_by_step.items():
        got = nat_r.get(step)
        if got is None:
            diffs.append("step %d: native run produced no result (crash?)" % step)
            continue
        if exp is None:
            continue
        k = exp[0]
        if k == "op":
            continue
        if k in ("i", "p", "fn"):
            if got[0] != "i":
                diffs.append("step %d: return kind" % step)
                continue
            gv = int(got[1], 16)
            if k == "i":
                ev = exp[1]
                if (gv & 0xFFFFFFFF) != (ev & 0xFFFFFFFF) if exp[1] < (1 << 32) and False else gv != ev:
                    # 32-bit returns are zero/sign-extended differently: compare low 32 bits when the high part differs only by extension
                    if (gv & 0xFFFFFFFF) != (ev & 0xFFFFFFFF) or (ev >> 32) not in (0, 0xFFFFFFFF) or (gv >> 32) not in (0, 0xFFFFFFFF):
                        diffs.append("step %d: return value native=%#x llsym=%#x" % (step, gv, ev))
            elif k == "p":
                bases = nat_a.get(step, [])
                if exp[1] >= len(bases) or gv != bases[exp[1]] + exp[2]:
                    diffs.append("step %d: returned pointer native=%#x llsym=obj%d+%d" % (step, gv, exp[1], exp[2]))
        elif k == "f":
            gv = float.fromhex(got[1]) if got[0] == "f" else None
            ev = float(exp[1])
            if gv is None or not close(gv, ev, tol):
                diffs.append("step %d: return value native=%r llsym=%r" % (step, gv, ev))
        elif k == "cpx":
            for j in (0, 1):
                if exp[1 + j][0] == "f":
                    gv = float.fromhex(got[1 + j])
                    ev = float(exp[1 + j][1])
                    if not close(gv, ev, tol):
                        diffs.append("step %d: complex part %d native=%r llsym=%r" % (step, j, gv, ev))
    for step, dump in dumps_by_step.items():
        bases = nat_a.get(step)
        if bases is None:
            continue
        for oi, (a, size, cells, alive) in enumerate(dump):
            if not alive:
                continue
            nb = nat_d.get((step, oi))
            if nb is None:
                continue
            for off, (csz, val) in cells.items():
                if off + csz > len(nb):
                    continue
                raw = nb[off:off + csz]
                if isinstance(val, Fraction):
                    gv = struct.unpack("<d", raw)[0] if csz == 8 else struct.unpack("<f", raw)[0]
                    if not close(gv, float(val), tol):
                        diffs.append("step %d obj %d+%d: native=%r llsym=%r" % (step, oi, off, gv, float(val)))
                elif isinstance(val, int):
                    gv = int.from_bytes(raw, "little")
                    if gv == val:
                        continue
                    # pointer into a harness object?
                    e = tr.enc(val) if csz == 8 else ("i", val)
                    if e[0] == "p" and e[1] < len(bases) and gv == bases[e[1]] + e[2]:
                        continue
                    if e[0] == "fn":
                        continue
                    # pointer into some other llsym object (library-internal allocation): cannot be compared
                    if csz == 8 and ex.obj_at(val) is not None and val >= core.ADDR_BASE:
                        continue
                    diffs.append("step %d obj %d+%d: native=%#x llsym=%#x" % (step, oi, off, gv, val))
    return (not diffs), diffs


REL_ONLY = [False]


def close(a, b, tol):
    if a != a or b != b:
        return a != a and b != b
    if a == b:
        return True
    if REL_ONLY[0]:
        if a in (float("inf"), float("-inf")) or b in (float("inf"), float("-inf")):
            return False        # an infinity against a finite exact value is a departure
        return abs(a - b) <= tol * max(abs(a), abs(b))
    return abs(a - b) <= tol * max(1.0, abs(a), abs(b))


def confirm(ex_factory, harness, finding, cfg, srcs, tag, tol=1e-9):
    """Replay a finding against the native build of the current tree.
    Returns dict(confirmed, how, text, c_file)."""
    ex2 = ex_factory()
    ex2.concrete = dict(finding.model)
    ex2.work = []
    ex2._reset_path([])
    ex2.concrete = dict(finding.model)
    core.STRICT_BITS[0] = False
    outcome = "completed"
    try:
        harness(ex2)
    except core.Abort:
        outcome = "abort"
    except core.Infeasible:
        outcome = "infeasible"
    except core.Unsupported as e:
        outcome = "unsupported: %s" % e
    same = [f for f in ex2.findings if f.kind == finding.kind and f.label == finding.label]
    tr = getattr(ex2, "tr", None)
    if tr is None:
        return dict(confirmed=False, how="harness records no action trace", text="", c_file=None)
    if not same:
        return dict(confirmed=False, how="model does not reproduce in the concrete llsym run (%s; findings: %s)" % (
            outcome, [(f.kind, f.label) for f in ex2.findings]), text="", c_file=None)
    csrc = gen_c(ex2, tr.acts, len(tr.objs), tr.c_prelude() if callable(tr.c_prelude) else tr.c_prelude, ir_sigs(ex2), tr.dumps)
    cpath = os.path.join(scratch(), "replay_%s.c" % tag)
    with open(cpath, "w") as f:
        f.write(csrc)
    try:
        exe = native_prog(cfg, cpath, srcs, name="replay_%s" % tag, san=True)
    except MachineryError as e:
        return dict(confirmed=False, how="replay program does not build: %s" % str(e)[-400:], text=csrc, c_file=cpath)
    env = dict(os.environ, ASAN_OPTIONS="detect_leaks=0", UBSAN_OPTIONS="print_stacktrace=1")
    rc, so, se, _ = run([exe], timeout=60, env=env)
    san = ("AddressSanitizer" in (se or "")) or ("runtime error" in (se or ""))
    if finding.kind in ("MEM", "UB"):
        if san or rc not in (0,):
            line = [l for l in (se or "").splitlines() if "ERROR" in l or "runtime error" in l or "SUMMARY" in l]
            return dict(confirmed=True, how="sanitizer: " + (line[0][:200] if line else "exit %s" % rc), text=csrc, c_file=cpath)
        ok, diffs = compare(ex2, tr, so, tr.acts, tr.dumps, tr.rets, tol)
        return dict(confirmed=False, how="native run is clean under ASan/UBSan (pointer-formation-only UB or not reproducible); "
                    "state %s llsym" % ("matches" if ok else "differs from"), text=csrc, c_file=cpath)
    if finding.kind == "RANGE":
        # the exact-real run leaves the floating-point range in an intermediate result: the finding is confirmed when the
        # IEEE run of the real code departs from the exact value of the final state (relative comparison, no absolute floor)
        REL_ONLY[0] = True
        try:
            ok, diffs = compare(ex2, tr, so, tr.acts, tr.dumps, tr.rets, tol)
        finally:
            REL_ONLY[0] = False
        if not ok and "END" in so:
            return dict(confirmed=True, how="native IEEE run departs from the exact value although the exact result is representable: %s" % "; ".join(diffs[:2]),
                        text=csrc, c_file=cpath)
        return dict(confirmed=False, how="native IEEE run agrees with the exact value (the range excursion is absorbed)", text=csrc, c_file=cpath)
    ok, diffs = compare(ex2, tr, so, tr.acts, tr.dumps, tr.rets, tol)
    if san:
        return dict(confirmed=True, how="sanitizer report during replay", text=csrc, c_file=cpath)
    if ok and "END" in so:
        return dict(confirmed=True, how="native run reproduces the state on which the oracle fails (%d calls compared)" % len(tr.rets),
                    text=csrc, c_file=cpath)
    return dict(confirmed=False, how="native run disagrees with llsym: %s" % "; ".join(diffs[:4]), text=csrc, c_file=cpath, mismatch=True)


def validate_path(ex_factory, harness, model, cfg, srcs, tag, tol=1e-9):
    """Translator validation on a non-violating path: concrete llsym run vs native run."""
    ex2 = ex_factory()
    ex2.work = []
    ex2._reset_path([])
    ex2.concrete = dict(model)
    core.STRICT_BITS[0] = False
    try:
        harness(ex2)
    except (core.Abort, core.Infeasible, core.Unsupported):
        pass
    tr = getattr(ex2, "tr", None)
    if tr is None or not tr.rets:
        return None
    csrc = gen_c(ex2, tr.acts, len(tr.objs), tr.c_prelude() if callable(tr.c_prelude) else tr.c_prelude, ir_sigs(ex2), tr.dumps)
    cpath = os.path.join(scratch(), "valid_%s.c" % tag)
    with open(cpath, "w") as f:
        f.write(csrc)
    exe = native_prog(cfg, cpath, srcs, name="valid_%s" % tag, san=True)
    env = dict(os.environ, ASAN_OPTIONS="detect_leaks=0")
    rc, so, se, _ = run([exe], timeout=60, env=env)
    ok, diffs = compare(ex2, tr, so, tr.acts, tr.dumps, tr.rets, tol)
    if rc != 0:
        ok = False
        diffs.append("native exit %s: %s" % (rc, (se or "")[-300:]))
    return ok, diffs, len(tr.rets), getattr(ex2, "near_ties", 0)
