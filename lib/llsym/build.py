"""Build LLVM IR of liba translation units from /repo's current working tree and parse it."""
import os, hashlib
from vcommon import *
import ir

_cache = {}


def ir_text(cfg, path, defs=(), extra_inc=()):
    key = (cfg, path, tuple(defs))
    if key in _cache:
        return _cache[key]
    h = hashlib.md5(repr(key).encode()).hexdigest()[:10]
    base = os.path.join(scratch(), "ir_%s_%s" % (os.path.basename(path).replace(".", "_"), h))
    cmd = ["clang-14", "-O0", "-Xclang", "-disable-O0-optnone", "-ffp-contract=off", "-fno-builtin", "-S", "-emit-llvm", "-std=c11", "-w"] + cflags(cfg) \
        + ["-I" + i for i in extra_inc] + ["-D" + d for d in defs] + [path, "-o", base + ".ll"]
    rc, so, se, _ = run(cmd, timeout=300)
    if rc != 0:
        raise MachineryError("clang failed on %s: %s" % (path, se[-2000:]))
    rc, so, se, _ = run(["opt-14", "-passes=sroa,mem2reg", "-S", base + ".ll", "-o", base + ".m.ll"], timeout=300)
    if rc != 0:
        raise MachineryError("opt failed on %s: %s" % (path, se[-2000:]))
    txt = open(base + ".m.ll").read()
    _cache[key] = txt
    return txt


def load_modules(cfg, names, defs=(), wrappers=(), bodies=True):
    """names: files under /repo/src; wrappers: absolute paths of wrapper TUs under /verif/harness/tu."""
    mods = []
    for n in names:
        mods.append(ir.parse_module(ir_text(cfg, os.path.join(REPO, "src", n), defs), bodies=bodies))
    for w in wrappers:
        mods.append(ir.parse_module(ir_text(cfg, w, defs)))
    return mods
