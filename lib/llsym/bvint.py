"""Bit-vector terms of the executor -> formulas over mathematical integers with the mod-2^w semantics kept.

Used for loop-invariant obligations about integer kernels (isqrt, gcd) whose bit-blasted form gives no verdict at
full width (udiv and 64x64 multipliers in one query) while z3's integer arithmetic decides them in well under a
second.  Every unsigned bit-vector term t of width w becomes an integer term in [0, 2^w); add/sub/mul/shl wrap with an
explicit `mod 2^w`; udiv/urem follow SMT-LIB (x udiv 0 = 2^w-1, x urem 0 = x).  Anything the translator does not
know raises Untranslatable: a path-condition constraint that cannot be translated is *dropped* (fewer assumptions:
sound for a proof), a claim that cannot be translated is an error."""
import z3


class Untranslatable(Exception):
    pass


class T:
    def __init__(self):
        self.vars = {}          # bv const name -> (Int const, width)
        self.cache = {}
        self.side = []
        self.dm = {}

    def var(self, name, w):
        if name not in self.vars:
            self.vars[name] = (z3.Int("i." + name), w)
        return self.vars[name][0]

    def ranges(self):
        return [z3.And(v >= 0, v < 2 ** w) for v, w in self.vars.values()] + self.side

    def divmod(self, a, b, ka, kb):
        """quotient and remainder as named integers with their defining constraint (b != 0 -> a = q*b + r, 0 <= r < b):
        the same meaning as z3's div/mod, but the solver chains divisibility facts through the explicit equation."""
        if (ka, kb) not in self.dm:
            n = len(self.dm)
            q, r = z3.Int("q.%d" % n), z3.Int("r.%d" % n)
            self.side.append(z3.Implies(b != 0, z3.And(a == q * b + r, r >= 0, r < b, q >= 0)))
            self.dm[(ka, kb)] = (q, r)
        return self.dm[(ka, kb)]

    # ---------------------------------------------------------------- terms
    def term(self, e):
        k = e.get_id()
        if k not in self.cache:
            self.cache[k] = self._term(e)
        return self.cache[k]

    def _term(self, e):
        if not z3.is_bv(e):
            raise Untranslatable("not a bit-vector term: %s" % e.sort())
        w = e.size()
        m = 2 ** w
        if z3.is_bv_value(e):
            return z3.IntVal(e.as_long())
        d = e.decl().kind()
        ch = e.children()
        if d == z3.Z3_OP_UNINTERPRETED and not ch:
            return self.var(e.decl().name(), w)
        if d == z3.Z3_OP_BADD:
            s = self.term(ch[0])
            for c in ch[1:]:
                s = s + self.term(c)
            return s % m
        if d == z3.Z3_OP_BSUB:
            s = self.term(ch[0])
            for c in ch[1:]:
                s = s - self.term(c)
            return s % m
        if d == z3.Z3_OP_BMUL:
            s = self.term(ch[0])
            for c in ch[1:]:
                s = s * self.term(c)
            return s % m
        if d in (z3.Z3_OP_BUDIV, z3.Z3_OP_BUDIV_I, z3.Z3_OP_BUREM, z3.Z3_OP_BUREM_I):
            a, b = self.term(ch[0]), self.term(ch[1])
            q, r = self.divmod(a, b, ch[0].get_id(), ch[1].get_id())
            if d in (z3.Z3_OP_BUDIV, z3.Z3_OP_BUDIV_I):
                return z3.If(b == 0, z3.IntVal(m - 1), q)
            return z3.If(b == 0, a, r)
        if d == z3.Z3_OP_BLSHR and z3.is_bv_value(ch[1]):
            k = ch[1].as_long()
            return z3.IntVal(0) if k >= w else self.term(ch[0]) / (2 ** k)
        if d == z3.Z3_OP_BSHL and z3.is_bv_value(ch[1]):
            k = ch[1].as_long()
            return z3.IntVal(0) if k >= w else (self.term(ch[0]) * (2 ** k)) % m
        if d == z3.Z3_OP_ZERO_EXT:
            return self.term(ch[0])
        if d == z3.Z3_OP_EXTRACT:
            hi, lo = e.params()
            return (self.term(ch[0]) / (2 ** lo)) % (2 ** (hi - lo + 1))
        if d == z3.Z3_OP_CONCAT:
            s = z3.IntVal(0)
            for c in ch:
                s = s * (2 ** c.size()) + self.term(c)
            return s
        if d == z3.Z3_OP_ITE:
            return z3.If(self.form(ch[0]), self.term(ch[1]), self.term(ch[2]))
        raise Untranslatable("bit-vector operator %s" % e.decl().name())

    # ---------------------------------------------------------------- formulas
    def form(self, e):
        if not z3.is_bool(e):
            raise Untranslatable("not a formula")
        if z3.is_true(e) or z3.is_false(e):
            return e
        d = e.decl().kind()
        ch = e.children()
        if d == z3.Z3_OP_NOT:
            return z3.Not(self.form(ch[0]))
        if d == z3.Z3_OP_AND:
            return z3.And([self.form(c) for c in ch])
        if d == z3.Z3_OP_OR:
            return z3.Or([self.form(c) for c in ch])
        if d == z3.Z3_OP_IMPLIES:
            return z3.Implies(self.form(ch[0]), self.form(ch[1]))
        if d == z3.Z3_OP_ITE:
            return z3.If(self.form(ch[0]), self.form(ch[1]), self.form(ch[2]))
        if d in (z3.Z3_OP_EQ, z3.Z3_OP_DISTINCT, z3.Z3_OP_IFF):
            if z3.is_bool(ch[0]):
                a, b = self.form(ch[0]), self.form(ch[1])
            else:
                a, b = self.term(ch[0]), self.term(ch[1])
            return (a == b) if d != z3.Z3_OP_DISTINCT else (a != b)
        cmp = {z3.Z3_OP_ULT: lambda a, b: a < b, z3.Z3_OP_ULEQ: lambda a, b: a <= b,
               z3.Z3_OP_UGT: lambda a, b: a > b, z3.Z3_OP_UGEQ: lambda a, b: a >= b}
        if d in cmp:
            return cmp[d](self.term(ch[0]), self.term(ch[1]))
        raise Untranslatable("predicate %s" % e.decl().name())
