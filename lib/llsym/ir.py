"""Parser for the textual LLVM-14 IR (typed pointers) that clang -O0 + sroa,mem2reg emits for liba.
Produces a Module with struct types, globals (with constant initialisers), function definitions
(blocks of pre-decoded instruction tuples) and declarations."""
import re
from fractions import Fraction
import struct as _struct

TOK = re.compile(r'''
    (?P<ws>\s+) |
    (?P<comment>;[^\n]*) |
    (?P<str>c"(?:[^"\\]|\\.)*") |
    (?P<qid>[%@]"(?:[^"\\]|\\.)*") |
    (?P<id>[%@][-A-Za-z$._0-9]+) |
    (?P<meta>![A-Za-z0-9_.]*) |
    (?P<attr>\#\d+) |
    (?P<hex>0x[KLMHR]?[0-9A-Fa-f]+) |
    (?P<num>-?\d+\.\d*(?:[eE][-+]?\d+)?|-?\d+) |
    (?P<word>[A-Za-z_][A-Za-z0-9_.]*) |
    (?P<dots>\.\.\.) |
    (?P<p>[=,()\[\]{}<>*:|])
''', re.X)


def tokenize(s):
    out = []
    pos = 0
    n = len(s)
    while pos < n:
        m = TOK.match(s, pos)
        if not m:
            raise SyntaxError("cannot tokenize at %r" % s[pos:pos + 40])
        pos = m.end()
        k = m.lastgroup
        if k in ("ws", "comment"):
            continue
        out.append((k, m.group(k)))
    return out


# ------------------------------------------------------------------ types
class Ty:
    pass


class IntT(Ty):
    __slots__ = ("bits",)

    def __init__(self, bits): self.bits = bits
    def __repr__(self): return "i%d" % self.bits


class FloatT(Ty):
    __slots__ = ("kind",)

    def __init__(self, kind): self.kind = kind
    def __repr__(self): return self.kind


class PtrT(Ty):
    __slots__ = ("elem",)

    def __init__(self, elem): self.elem = elem
    def __repr__(self): return "%r*" % (self.elem,)


class ArrT(Ty):
    __slots__ = ("n", "elem")

    def __init__(self, n, elem): self.n, self.elem = n, elem
    def __repr__(self): return "[%d x %r]" % (self.n, self.elem)


class VecT(Ty):
    __slots__ = ("n", "elem")

    def __init__(self, n, elem): self.n, self.elem = n, elem
    def __repr__(self): return "<%d x %r>" % (self.n, self.elem)


class StructT(Ty):
    def __init__(self, name=None, fields=None, packed=False):
        self.name, self.fields, self.packed = name, fields, packed
        self._lay = None

    def __repr__(self): return self.name or ("{%s}" % ", ".join(map(repr, self.fields or [])))


class FuncT(Ty):
    def __init__(self, ret, params, vararg): self.ret, self.params, self.vararg = ret, params, vararg
    def __repr__(self): return "%r(%s)" % (self.ret, ", ".join(map(repr, self.params)))


class VoidT(Ty):
    def __repr__(self): return "void"


class LabelT(Ty):
    def __repr__(self): return "label"


VOID, LABEL = VoidT(), LabelT()
_ints = {}


def int_t(b):
    t = _ints.get(b)
    if t is None:
        t = _ints[b] = IntT(b)
    return t


F64, F32, F80 = FloatT("double"), FloatT("float"), FloatT("x86_fp80")
I8P = PtrT(int_t(8))


def sizeof(t):
    return layout(t)[0]


def alignof(t):
    return layout(t)[1]


def layout(t):
    """(size, align) on x86-64 SysV."""
    if isinstance(t, IntT):
        b = (t.bits + 7) // 8
        s = 1
        while s < b:
            s *= 2
        return (s, min(s, 16)) if t.bits <= 128 else (b, 8)
    if isinstance(t, FloatT):
        return {"double": (8, 8), "float": (4, 4), "x86_fp80": (16, 16)}[t.kind]
    if isinstance(t, (PtrT, FuncT)):
        return (8, 8)
    if isinstance(t, ArrT):
        s, a = layout(t.elem)
        return (s * t.n, a)
    if isinstance(t, VecT):
        s, a = layout(t.elem)
        return (s * t.n, s * t.n)
    if isinstance(t, StructT):
        if t._lay is None:
            struct_offsets(t)
        return t._lay[0], t._lay[1]
    raise TypeError("no layout for %r" % (t,))


def struct_offsets(t):
    if t._lay is None:
        if t.fields is None:
            raise TypeError("opaque struct %s" % t.name)
        off, al, offs = 0, 1, []
        for f in t.fields:
            s, a = layout(f)
            if t.packed:
                a = 1
            off = (off + a - 1) // a * a
            offs.append(off)
            off += s
            al = max(al, a)
        off = (off + al - 1) // al * al
        t._lay = (off, al, offs)
    return t._lay[2]


# ------------------------------------------------------------------ constants / operands
# Operand encodings (tuples): ("r", name) register; ("c", value) concrete int / Fraction-based float /
# ("g", name) global or function address; ("null",); ("undef",); ("zero",) zeroinitializer;
# ("agg", [ops]) aggregate constant; ("str", bytes); ("cexpr", op, ...) constant expressions.

class Func:
    def __init__(self, name, ret, params, vararg):
        self.name, self.ret, self.params, self.vararg = name, ret, params, vararg   # params: [(type, regname)]
        self.blocks = {}      # label -> list of instructions
        self.order = []       # labels in order
        self.entry = None
        self.lines = {}       # label -> source line (debug) if available


class Global:
    def __init__(self, name, ty, init, const, align):
        self.name, self.ty, self.init, self.const, self.align = name, ty, init, const, align


class Module:
    def __init__(self):
        self.structs = {}
        self.globals = {}
        self.funcs = {}
        self.decls = {}


class P:
    """Token stream cursor."""

    def __init__(self, toks, mod):
        self.t, self.i, self.mod = toks, 0, mod

    def peek(self, k=0):
        j = self.i + k
        return self.t[j] if j < len(self.t) else (None, None)

    def next(self):
        x = self.t[self.i]
        self.i += 1
        return x

    def accept(self, val):
        if self.i < len(self.t) and self.t[self.i][1] == val:
            self.i += 1
            return True
        return False

    def expect(self, val):
        x = self.next()
        if x[1] != val:
            raise SyntaxError("expected %r got %r (context %r)" % (val, x[1], self.t[max(0, self.i - 6):self.i + 4]))

    def done(self):
        return self.i >= len(self.t)

    # ---- types
    def type(self):
        k, v = self.next()
        if k == "word":
            if v == "void":
                t = VOID
            elif v[0] == "i" and v[1:].isdigit():
                t = int_t(int(v[1:]))
            elif v == "double":
                t = F64
            elif v == "float":
                t = F32
            elif v == "x86_fp80":
                t = F80
            elif v == "label":
                t = LABEL
            elif v == "metadata":
                t = LABEL
            elif v == "opaque":
                t = StructT(None, None)
            elif v == "ptr":
                t = I8P
            else:
                raise SyntaxError("unknown type word %r" % v)
        elif k in ("id", "qid") and v[0] == "%":
            nm = v
            t = self.mod.structs.get(nm)
            if t is None:
                t = self.mod.structs[nm] = StructT(nm, None)
        elif v == "{":
            t = StructT(None, self._fields("}"))
        elif v == "<":
            if self.peek()[1] == "{":
                self.next()
                f = self._fields("}")
                self.expect(">")
                t = StructT(None, f, packed=True)
            else:
                n = int(self.next()[1])
                self.expect("x")
                e = self.type()
                self.expect(">")
                t = VecT(n, e)
        elif v == "[":
            n = int(self.next()[1])
            self.expect("x")
            e = self.type()
            self.expect("]")
            t = ArrT(n, e)
        else:
            raise SyntaxError("bad type start %r" % v)
        while True:
            if self.accept("*"):
                t = PtrT(t)
            elif self.peek()[1] == "(" and not isinstance(t, LabelT):
                self.next()
                ps, va = [], False
                while not self.accept(")"):
                    if self.accept("..."):
                        va = True
                    else:
                        ps.append(self.type())
                    self.accept(",")
                t = FuncT(t, ps, va)
            else:
                break
        return t

    def _fields(self, close):
        fs = []
        while not self.accept(close):
            fs.append(self.type())
            self.accept(",")
        return fs

    # ---- operands
    def value(self, ty):
        k, v = self.next()
        if k in ("id", "qid"):
            if v[0] == "%":
                return ("r", v)
            return ("g", v[1:].strip('"'))
        if k == "num":
            if isinstance(ty, FloatT):
                return ("c", rationalize(Fraction(float(v))))
            iv = int(v)
            if isinstance(ty, IntT):
                iv &= (1 << ty.bits) - 1
            return ("c", iv)
        if k == "hex":
            return ("c", hexfloat(v, ty))
        if k == "word":
            if v == "true":
                return ("c", 1)
            if v == "false":
                return ("c", 0)
            if v == "null":
                return ("c", 0)
            if v in ("undef", "poison"):
                return ("undef",)
            if v == "zeroinitializer":
                return ("zero",)
            if v in ("getelementptr", "bitcast", "ptrtoint", "inttoptr", "add", "sub", "trunc", "zext", "sext", "mul"):
                return self.cexpr(v)
            raise SyntaxError("bad value word %r" % v)
        if k == "str":
            return ("str", cstring(v))
        if v == "[" or v == "{" or v == "<":
            close = {"[": "]", "{": "}", "<": ">"}[v]
            if v == "<" and self.peek()[1] == "{":
                self.next()
                items = self._agg("}")
                self.expect(">")
                return ("agg", items)
            return ("agg", self._agg(close))
        raise SyntaxError("bad value %r" % (v,))

    def _agg(self, close):
        items = []
        while not self.accept(close):
            t = self.type()
            items.append((t, self.value(t)))
            self.accept(",")
        return items

    def cexpr(self, op):
        if op == "getelementptr":
            self.accept("inbounds")
            self.expect("(")
            bt = self.type()
            self.expect(",")
            pt = self.type()
            base = self.value(pt)
            idx = []
            while self.accept(","):
                self.accept("inrange")
                it = self.type()
                idx.append(self.value(it))
            self.expect(")")
            return ("cgep", bt, base, idx)
        if op in ("bitcast", "ptrtoint", "inttoptr", "trunc", "zext", "sext"):
            self.expect("(")
            ft = self.type()
            v = self.value(ft)
            self.expect("to")
            tt = self.type()
            self.expect(")")
            return ("ccast", op, ft, v, tt)
        if op in ("add", "sub", "mul"):
            while self.peek()[1] in ("nuw", "nsw"):
                self.next()
            self.expect("(")
            t1 = self.type()
            a = self.value(t1)
            self.expect(",")
            t2 = self.type()
            b = self.value(t2)
            self.expect(")")
            return ("cbin", op, t1, a, b)
        raise SyntaxError(op)

    def typed_value(self):
        t = self.type()
        self.skip_param_attrs()
        return t, self.value(t)

    def skip_param_attrs(self):
        while True:
            k, v = self.peek()
            if k == "word" and v in PARAM_ATTRS:
                self.next()
                if v == "align" and self.peek()[0] == "num":
                    self.next()
                if self.peek()[1] == "(":
                    depth = 0
                    while True:
                        x = self.next()[1]
                        if x == "(":
                            depth += 1
                        elif x == ")":
                            depth -= 1
                            if depth == 0:
                                break
            else:
                break


PARAM_ATTRS = {"noundef", "nonnull", "signext", "zeroext", "noalias", "nocapture", "readonly", "writeonly", "readnone",
               "immarg", "returned", "inreg", "byval", "sret", "align", "dereferenceable", "dereferenceable_or_null",
               "nofree", "nest", "swiftself", "noreturn", "nounwind", "inalloca", "preallocated", "captures"}


RATIONALIZE = True


def rationalize(f):
    """A double literal that is the rounding of a simple rational (1/6, 0.1, ...) denotes that rational in
    the exact-real domain: literal rounding is rounding, which the real-domain claims exclude."""
    if not RATIONALIZE or f.denominator == 1:
        return f
    c = f.limit_denominator(4096)
    if c != f and float(c) == float(f):
        return c
    for k in (4, 5, 6):             # short decimal literals (0.6417)
        c = Fraction(round(f * 10 ** k), 10 ** k)
        if float(c) == float(f):
            return c
    return f


def hexfloat(v, ty):
    if v.startswith("0xK"):
        raw = int(v[3:], 16)   # x86_fp80: 1 sign, 15 exp, 64 mantissa (explicit int bit)
        sign = -1 if raw >> 79 else 1
        e = (raw >> 64) & 0x7FFF
        m = raw & ((1 << 64) - 1)
        if e == 0x7FFF:
            return ("nonfinite", "inf" if m << 1 == 0 else "nan", sign)
        if e == 0 and m == 0:
            return Fraction(0)
        return sign * Fraction(m) * Fraction(2) ** (e - 16383 - 63)
    raw = int(v[2:], 16)
    d = _struct.unpack(">d", _struct.pack(">Q", raw))[0]
    if d != d:
        return ("nonfinite", "nan", 1)
    if d in (float("inf"), float("-inf")):
        return ("nonfinite", "inf", 1 if d > 0 else -1)
    return rationalize(Fraction(d))


def cstring(v):
    s = v[2:-1]
    out = bytearray()
    i = 0
    while i < len(s):
        if s[i] == "\\":
            out.append(int(s[i + 1:i + 3], 16))
            i += 3
        else:
            out.append(ord(s[i]))
            i += 1
    return bytes(out)


# ------------------------------------------------------------------ module parsing
BINOPS = {"add", "sub", "mul", "udiv", "sdiv", "urem", "srem", "shl", "lshr", "ashr", "and", "or", "xor"}
FBINOPS = {"fadd", "fsub", "fmul", "fdiv", "frem"}
CASTS = {"zext", "sext", "trunc", "bitcast", "ptrtoint", "inttoptr", "sitofp", "uitofp", "fptosi", "fptoui", "fpext", "fptrunc"}
FLAGS = {"nuw", "nsw", "exact", "inbounds", "fast", "nnan", "ninf", "nsz", "arcp", "contract", "afn", "reassoc", "volatile",
         "tail", "musttail", "notail"}
CALL_SKIP = {"fastcc", "ccc", "coldcc"} | PARAM_ATTRS


def parse_module(text, mod=None, bodies=True):
    mod = mod or Module()
    lines = text.split("\n")
    i = 0
    n = len(lines)
    while i < n:
        ln = lines[i]
        s = ln.strip()
        i += 1
        if not s or s[0] == ";" or s.startswith(("source_filename", "target ", "attributes ", "!")):
            continue
        if s.startswith("%") or s.startswith('%"'):
            m = re.match(r'(%(?:"[^"]+"|[-A-Za-z$._0-9]+))\s*=\s*type\s+(.*)$', s)
            if m:
                p = P(tokenize(m.group(2)), mod)
                t = p.type()
                st = mod.structs.get(m.group(1))
                if st is None:
                    st = mod.structs[m.group(1)] = StructT(m.group(1), None)
                if isinstance(t, StructT):
                    st.fields, st.packed = t.fields, t.packed
                continue
        if s.startswith("@"):
            parse_global(s, mod)
            continue
        if s.startswith("declare"):
            p = P(tokenize(s), mod)
            p.next()
            name, ret, params, va = parse_proto(p, False)
            mod.decls[name] = Func(name, ret, params, va)
            continue
        if s.startswith("define"):
            p = P(tokenize(s.rstrip("{").rstrip()), mod)
            p.next()
            name, ret, params, va = parse_proto(p, True)
            f = Func(name, ret, params, va)
            body = []
            while i < n and lines[i].strip() != "}":
                body.append(lines[i])
                i += 1
            i += 1
            if bodies:
                parse_body(f, body, mod)
            mod.funcs[name] = f
            continue
    return mod


LINKAGE = {"private", "internal", "available_externally", "linkonce", "weak", "common", "appending", "extern_weak",
           "linkonce_odr", "weak_odr", "external", "dso_local", "dso_preemptable", "default", "hidden", "protected",
           "unnamed_addr", "local_unnamed_addr", "thread_local", "dllimport", "dllexport", "externally_initialized"}


def parse_global(s, mod):
    p = P(tokenize(s), mod)
    name = p.next()[1][1:].strip('"')
    p.expect("=")
    external = False
    while p.peek()[0] == "word" and p.peek()[1] in LINKAGE:
        if p.next()[1] in ("external", "extern_weak"):
            external = True
    kind = p.next()[1]
    if kind not in ("global", "constant"):
        if kind == "alias":
            return
        raise SyntaxError("global kind %r in %r" % (kind, s[:80]))
    ty = p.type()
    init = None
    if not external and not p.done() and p.peek()[1] != ",":
        init = p.value(ty)
    align = 1
    while not p.done():
        k, v = p.next()
        if v == "align":
            align = int(p.next()[1])
    mod.globals[name] = Global(name, ty, init, kind == "constant", align)


def parse_proto(p, is_def):
    while p.peek()[0] == "word" and (p.peek()[1] in LINKAGE or p.peek()[1] in CALL_SKIP):
        p.next()
    p.skip_param_attrs()
    ret = p.type()
    name = p.next()[1][1:].strip('"')
    p.expect("(")
    params, va = [], False
    while not p.accept(")"):
        if p.accept("..."):
            va = True
        else:
            t = p.type()
            p.skip_param_attrs()
            rn = None
            if p.peek()[0] in ("id", "qid") and p.peek()[1][0] == "%":
                rn = p.next()[1]
            params.append((t, rn))
        p.accept(",")
    return name, ret, params, va


def parse_body(f, body, mod):
    # entry block label is the number following the parameters when unnamed
    nparams_unnamed = sum(1 for _, r in f.params if r is not None and r[1:].isdigit())
    cur = "%" + str(len(f.params)) if all(r is None or r[1:].isdigit() for _, r in f.params) else "%entry0"
    first = True
    insts = []
    j = 0
    nb = len(body)
    while j < nb:
        raw = body[j]
        j += 1
        s = raw.strip()
        if not s or s[0] == ";":
            continue
        m = re.match(r'^("[^"]+"|[-A-Za-z$._0-9]+):', s)
        if m and not raw.startswith("  "):
            if insts or not first:
                f.blocks[cur] = insts
                f.order.append(cur)
            cur = "%" + m.group(1).strip('"')
            insts = []
            first = False
            continue
        if first and not insts:
            first = False
            f.entry = cur
        if s.startswith("switch") and s.endswith("["):
            while not body[j].strip().startswith("]"):
                s += " " + body[j].strip()
                j += 1
            s += " ]"
            j += 1
        insts.append(parse_inst(s, mod))
    f.blocks[cur] = insts
    f.order.append(cur)
    if f.entry is None:
        f.entry = f.order[0]


def strip_meta(toks):
    # drop trailing ", !dbg !12" style metadata attachments
    out = []
    i = 0
    while i < len(toks):
        if toks[i][0] == "meta":
            if out and out[-1][1] == ",":
                out.pop()
            i += 1
            while i < len(toks) and toks[i][0] == "meta":
                i += 1
            continue
        out.append(toks[i])
        i += 1
    return out


def parse_inst(s, mod):
    toks = strip_meta(tokenize(s))
    p = P(toks, mod)
    dest = None
    if p.peek()[0] in ("id", "qid") and p.peek(1)[1] == "=":
        dest = p.next()[1]
        p.next()
    op = p.next()[1]
    while op in ("tail", "musttail", "notail"):
        op = p.next()[1]
    if op in BINOPS:
        flags = set()
        while p.peek()[1] in FLAGS:
            flags.add(p.next()[1])
        t = p.type()
        a = p.value(t)
        p.expect(",")
        b = p.value(t)
        return ("bin", dest, op, t, a, b, frozenset(flags))
    if op in FBINOPS:
        while p.peek()[1] in FLAGS:
            p.next()
        t = p.type()
        a = p.value(t)
        p.expect(",")
        b = p.value(t)
        return ("fbin", dest, op, t, a, b)
    if op == "fneg":
        while p.peek()[1] in FLAGS:
            p.next()
        t = p.type()
        return ("fneg", dest, t, p.value(t))
    if op == "icmp":
        pred = p.next()[1]
        t = p.type()
        a = p.value(t)
        p.expect(",")
        b = p.value(t)
        return ("icmp", dest, pred, t, a, b)
    if op == "fcmp":
        while p.peek()[1] in FLAGS:
            p.next()
        pred = p.next()[1]
        t = p.type()
        a = p.value(t)
        p.expect(",")
        b = p.value(t)
        return ("fcmp", dest, pred, t, a, b)
    if op in CASTS:
        ft = p.type()
        v = p.value(ft)
        p.expect("to")
        tt = p.type()
        return ("cast", dest, op, ft, v, tt)
    if op == "getelementptr":
        inb = p.accept("inbounds")
        bt = p.type()
        p.expect(",")
        pt = p.type()
        base = p.value(pt)
        idx = []
        while p.accept(","):
            it = p.type()
            idx.append((it, p.value(it)))
        return ("gep", dest, bt, base, idx, inb)
    if op == "load":
        p.accept("volatile")
        t = p.type()
        p.expect(",")
        pt = p.type()
        a = p.value(pt)
        return ("load", dest, t, a)
    if op == "store":
        p.accept("volatile")
        t = p.type()
        v = p.value(t)
        p.expect(",")
        pt = p.type()
        a = p.value(pt)
        return ("store", None, t, v, a)
    if op == "alloca":
        t = p.type()
        cnt = ("c", 1)
        align = 1
        while p.accept(","):
            if p.accept("align"):
                align = int(p.next()[1])
            else:
                ct = p.type()
                cnt = p.value(ct)
        return ("alloca", dest, t, cnt, align)
    if op == "br":
        if p.accept("label"):
            return ("br", None, p.next()[1])
        t = p.type()
        c = p.value(t)
        p.expect(",")
        p.expect("label")
        a = p.next()[1]
        p.expect(",")
        p.expect("label")
        b = p.next()[1]
        return ("cbr", None, c, a, b)
    if op == "switch":
        t = p.type()
        v = p.value(t)
        p.expect(",")
        p.expect("label")
        dflt = p.next()[1]
        p.expect("[")
        cases = []
        while not p.accept("]"):
            ct = p.type()
            cv = p.value(ct)
            p.expect(",")
            p.expect("label")
            cases.append((cv[1], p.next()[1]))
        return ("switch", None, t, v, dflt, cases)
    if op == "ret":
        t = p.type()
        if isinstance(t, VoidT):
            return ("ret", None, None, None)
        return ("ret", None, t, p.value(t))
    if op == "unreachable":
        return ("unreachable", None)
    if op == "phi":
        t = p.type()
        inc = []
        while True:
            p.expect("[")
            v = p.value(t)
            p.expect(",")
            lab = p.next()[1]
            p.expect("]")
            inc.append((v, lab))
            if not p.accept(","):
                break
        return ("phi", dest, t, dict((lab, v) for v, lab in inc))
    if op == "select":
        while p.peek()[1] in FLAGS:
            p.next()
        ct = p.type()
        c = p.value(ct)
        p.expect(",")
        t = p.type()
        a = p.value(t)
        p.expect(",")
        t2 = p.type()
        b = p.value(t2)
        return ("select", dest, t, c, a, b)
    if op == "call":
        while p.peek()[0] == "word" and (p.peek()[1] in FLAGS or p.peek()[1] in CALL_SKIP):
            p.next()
        p.skip_param_attrs()
        rt = p.type()
        if isinstance(rt, FuncT):
            rt = rt.ret
        elif isinstance(rt, PtrT) and isinstance(rt.elem, FuncT) and p.peek()[1] != "(" and False:
            pass
        callee = p.value(I8P)
        p.expect("(")
        args = []
        while not p.accept(")"):
            t = p.type()
            p.skip_param_attrs()
            args.append((t, p.value(t)))
            p.accept(",")
        return ("call", dest, rt, callee, args)
    if op == "extractvalue":
        t = p.type()
        v = p.value(t)
        idx = []
        while p.accept(","):
            idx.append(int(p.next()[1]))
        return ("extractvalue", dest, t, v, idx)
    if op == "insertvalue":
        t = p.type()
        v = p.value(t)
        p.expect(",")
        et = p.type()
        e = p.value(et)
        idx = []
        while p.accept(","):
            idx.append(int(p.next()[1]))
        return ("insertvalue", dest, t, v, et, e, idx)
    if op == "freeze":
        t = p.type()
        return ("cast", dest, "bitcast", t, p.value(t), t)
    raise SyntaxError("unsupported instruction: " + s)
