"""Driver for E1 (CBMC) properties: build, witness twins, race back ends, replay, report."""
import json, os, sys
from vcommon import *
import cbmc


class H:
    def __init__(self, name, file, function, srcs, defs=(), unwind=None, unwindset=None, timeout=None,
                 backends=("kissat", "cadical", "minisat"), flags=(), witness=True, note="", objbits=None,
                 droppable=False, instrument=()):
        self.instrument = tuple(instrument)
        self.name, self.file, self.function, self.srcs = name, file, function, list(srcs)
        self.defs, self.unwind, self.unwindset = tuple(defs), unwind, unwindset
        self.timeout, self.backends, self.flags = timeout, backends, list(flags)
        self.witness, self.note, self.objbits = witness, note, objbits
        self.droppable = droppable


def run_e1(res, cfg, hs, default_timeout=300, log=None):
    log = log or (lambda s: sys.stderr.write(s + "\n"))
    gbs = {}
    jobs = []

    def gb_for(h, extra=()):
        return gbs[(h.file, tuple(h.srcs), h.defs + tuple(extra), h.instrument)]

    import concurrent.futures as cf
    # build all goto binaries in parallel
    keys = []
    for h in hs:
        keys.append((h, ()))
        if h.witness:
            keys.append((h, ("WITNESS",)))
    uniq = {}
    for h, ex in keys:
        uniq.setdefault((h.file, tuple(h.srcs), h.defs + tuple(ex), h.instrument), (h, ex))
    with cf.ThreadPoolExecutor(NCPU) as ex_:
        futs = {k: ex_.submit(cbmc.goto_build, cfg, repo_sources(h.srcs), h.file, k[2],
                              "%s_%d" % (os.path.basename(h.file), i), h.instrument) for i, (k, (h, e)) in enumerate(uniq.items())}
        for k, f in futs.items():
            gbs[k] = f.result()
    for h in hs:
        to = h.timeout or default_timeout
        j = cbmc.Job(h.name, gb_for(h), h.function, h.unwind, h.unwindset, h.backends, to, flags=h.flags, objbits=h.objbits)
        j.h, j.kind = h, "main"
        jobs.append(j)
        if h.witness:
            w = cbmc.Job(h.name + "#witness", gb_for(h, ("WITNESS",)), h.function, h.unwind, h.unwindset, h.backends, to,
                         flags=h.flags, objbits=h.objbits)
            w.h, w.kind = h, "witness"
            jobs.append(w)
    cbmc.run_jobs(jobs, log=log)
    for j in jobs:
        h = j.h
        res.queries += 1
        res.solver_s += j.wall
        if j.kind == "witness":
            fp = [p for p in cbmc.failed_props(j.out)] if j.verdict == "fails" else []
            if j.verdict == "fails" and any("witness-reached" in d for _, d in fp):
                continue
            if j.verdict == "holds":
                res.error("harness %s is vacuous: its witness assert(0) is unreachable" % h.name)
            elif h.droppable:
                res.dropped.append({"name": j.name, "reason": j.verdict})
            else:
                res.error("witness %s: %s" % (h.name, j.verdict))
            continue
        entry = dict(engine="cbmc", backend=j.backend, wall_s=round(j.wall, 2), rss_mb=j.rss_kb // 1024,
                     function=h.function, defs=list(h.defs), unwind=h.unwind or h.unwindset, note=h.note)
        if j.verdict == "holds":
            res.ob(h.name, "holds", **entry)
        elif j.verdict == "fails":
            allfp = cbmc.failed_props(j.out)
            ub = [x for x in allfp if cbmc.is_formation_only(x[1])]
            fp = [x for x in allfp if not cbmc.is_formation_only(x[1])]
            if ub:
                res.extra.setdefault("mem_ub_formation_reports", []).append(
                    {"harness": h.name, "failed": ub, "note": "out-of-bounds pointer formed/compared without access; "
                     "standard-level UB that no sanitizer confirms, reported separately, not a VIOLATION"})
            if not fp:
                res.ob(h.name, "holds", formation_ub=len(ub), **entry)
                continue
            vals = cbmc.trace_inputs(j.out, h.function, fp[0][0])
            label = fp[0][1]
            sig = "%s:%s" % (h.function, label.replace(" ", "_"))
            try:
                ok, txt, cmdline = cbmc.native_replay(cfg, repo_sources(h.srcs), h.file, h.function, vals, defs=h.defs,
                                                      tag=str(abs(hash(h.name)) % 9999))
            except MachineryError as e:
                ok, txt, cmdline = False, str(e), []
            rp = res.save_replay(h.name.replace("/", "_") + ".json", json.dumps(
                {"harness": h.file, "function": h.function, "defs": list(h.defs), "srcs": h.srcs, "inputs": vals,
                 "failed": fp, "native_output": txt[-1500:]}, indent=1))
            if ok:
                res.ob(h.name, "violated", failed=fp, inputs=vals, **entry)
                first = [l for l in txt.strip().splitlines() if l.strip() and not l.startswith("=====")] or ["?"]
                res.violation(sig, "%s fails for inputs %s (native replay: %s)" % (
                    label, json.dumps({k: v for k, v in vals.items() if not k.startswith("return_value")}), first[0][:160]), replay=rp)
            else:
                res.ob(h.name, "unreproduced", failed=fp, inputs=vals, **entry)
                res.error("counterexample of %s (%s) did not reproduce natively: %s" % (h.name, label, txt[-300:]))
        else:
            if h.droppable:
                res.dropped.append({"name": h.name, "reason": j.verdict, "wall_s": round(j.wall, 1)})
            else:
                res.ob(h.name, j.verdict, **entry)
                res.error("%s: no verdict (%s) within %ss %s" % (h.name, j.verdict, j.timeout, j.out[-400:] if j.verdict == "error" else ""))


def replay_file(cfg, path):
    d = json.load(open(path))
    ok, txt, cmdline = cbmc.native_replay(cfg, repo_sources(d["srcs"]), d["harness"], d["function"],
                                          {k: int(v) for k, v in d["inputs"].items()}, defs=d["defs"], tag="cli")
    print(txt)
    print("reproduced" if ok else "not reproduced")
    return 1 if ok else 0
