"""Driver for E2 (llsym) properties: parallel exploration of harness instances, replay of findings
against the native build, translator validation, coverage and evidence."""
import multiprocessing as mp, os, sys, time, traceback, json
from fractions import Fraction
from vcommon import *

sys.path.insert(0, os.path.join(VERIF, "lib", "llsym"))
import build, core, replay, ir

G = {}


def _factory():
    ex = core.Exec(G["mods"], **G.get("exec_opts", {}))
    ex.work = []
    for k, v in G.get("exec_attrs", {}).items():
        setattr(ex, k, v)
    return ex


def _jsonable(v):
    if isinstance(v, Fraction):
        return str(v)
    if isinstance(v, dict):
        return {str(k): _jsonable(x) for k, x in v.items()}
    if isinstance(v, (list, tuple)):
        return [_jsonable(x) for x in v]
    if isinstance(v, (int, float, str, bool)) or v is None:
        return v
    return str(v)


def _work(task):
    idx, params = task
    t0 = time.time()
    out = dict(idx=idx, name=str(params), findings=[], error=None)
    try:
        name, harness = G["builder"](params)
        out["name"] = name
        ex = _factory()
        ex.nchecks = ex.nontrivial = 0
        sample = {}

        samples = []

        def on_end(e):
            # up to four sampled paths: the first one whose concrete re-run has no near-tie comparison is the validated one
            if len(samples) < 4 and G.get("validate", 0) and idx % G.get("validate_every", 1) == 0:
                m = e._model()
                if m is not None:
                    samples.append(e.model_dict(m))
                    sample["model"] = samples[0]
        summ = core.explore(ex, harness, max_paths=G.get("max_paths", 200000), time_budget=G.get("time_budget"),
                            on_path_end=on_end)
        out.update(summary=summ, stats=dict(ex.stats), nchecks=ex.nchecks, nontrivial=ex.nontrivial,
                   covered=sorted(ex.covered), uninit_reads=getattr(ex, "uninit_reads", 0))
        seen = set()
        for f in ex.findings:
            key = (f.kind, f.label)
            rec = dict(kind=f.kind, label=f.label, detail=f.detail, model=_jsonable(f.model), tags=getattr(f, "tags", []))
            if key in seen:
                rec["duplicate"] = True
                out["findings"].append(rec)
                continue
            seen.add(key)
            if f.kind in ("PROP", "MEM", "UB", "NONFINITE", "RANGE"):
                try:
                    c = replay.confirm(_factory, harness, f, G["cfg"], G["replay_srcs"], "%d_%d" % (idx, len(out["findings"])),
                                       tol=G.get("tol", 1e-9))
                except Exception as e:
                    c = dict(confirmed=False, how="replay machinery failed: %s" % traceback.format_exc()[-600:], text="", c_file=None)
                rec.update(confirmed=c["confirmed"], how=c["how"], c_text=c.get("text", ""), mismatch=c.get("mismatch", False))
            out["findings"].append(rec)
        for k, model in enumerate(samples):
            try:
                v = replay.validate_path(_factory, harness, model, G["cfg"], G["replay_srcs"], "v%d_%d" % (idx, k), tol=G.get("tol", 1e-9))
                if v is None:
                    continue
                if not v[0] and v[3]:
                    # the exact-real re-run took a branch on a comparison closer than 1e-9 (relative): the IEEE twin may
                    # legitimately go the other way; this sample says nothing about the translator - try the next one
                    out["fragile_samples"] = out.get("fragile_samples", 0) + 1
                    continue
                out["validated"] = dict(ok=v[0], diffs=v[1][:5], calls=v[2], model=_jsonable(model))
                break
            except Exception as e:
                out["validated"] = dict(ok=False, diffs=["validation machinery failed: " + traceback.format_exc()[-500:]], calls=0)
                break
    except Exception as e:
        out["error"] = traceback.format_exc()[-1500:]
    out["wall_s"] = time.time() - t0
    if os.environ.get("VERIF_VERBOSE"):
        sys.stderr.write("  [%6.1fs] %s %s\n" % (out["wall_s"], out["name"], str((out.get("summary") or {}).get("status", out.get("error", "")))[:80]))
        sys.stderr.flush()
    return out


def run_e2(res, cfg, src_names, instances, builder, wrappers=(), defs=(), replay_srcs=None, exec_opts=None, exec_attrs=None,
           max_paths=200000, time_budget=None, validate_every=1, nproc=None, tol=1e-9, sigmap=None, log=None, group="",
           tolerate=(), droppable=False):
    """instances: list of picklable params; builder(params) -> (name, harness(ex))."""
    log = log or (lambda s: sys.stderr.write(s + "\n"))
    mods = build.load_modules(cfg, src_names, defs=defs, wrappers=wrappers)
    G.clear()
    G.update(cfg=cfg, mods=mods, builder=builder, exec_opts=exec_opts or {}, exec_attrs=exec_attrs or {},
             max_paths=max_paths, time_budget=time_budget, validate=1, validate_every=validate_every, tol=tol,
             replay_srcs=replay_srcs if replay_srcs is not None else repo_sources(src_names))
    # warm the native object cache before forking so workers do not all rebuild it
    try:
        native_objs(cfg, G["replay_srcs"], san=True)
    except MachineryError as e:
        res.error("native build of the replay objects failed: %s" % e)
    nproc = nproc or max(1, NCPU - 2)
    only = os.environ.get("VERIF_ONLY")
    if only:
        instances = [i for i in instances if only in builder(i)[0]]
        nproc = 1
    tasks = list(enumerate(instances))
    t0 = time.time()
    if nproc == 1 or len(tasks) == 1:
        outs = [_work(t) for t in tasks]
    else:
        ctx = mp.get_context("fork")
        with ctx.Pool(min(nproc, len(tasks))) as pool:
            outs = list(pool.imap_unordered(_work, tasks, chunksize=1))
    outs.sort(key=lambda o: o["idx"])
    allfuncs = {}
    for m in mods:
        for fn, f in m.funcs.items():
            allfuncs[fn] = set(f.order)
    covered = {}
    agg = dict(paths=0, queries=0, solver_s=0.0, instrs=0, nchecks=0, nontrivial=0, validated=0, validated_calls=0, max_query_s=0.0, retries=0)
    for o in outs:
        if o.get("error"):
            res.error("%s instance %s: %s" % (group, o["name"], o["error"]))
            continue
        st, sm = o["stats"], o["summary"]
        agg["paths"] += sm["paths"]
        agg["queries"] += st["queries"]
        agg["solver_s"] += st["solver_s"]
        agg["instrs"] += st["instrs"]
        agg["max_query_s"] = max(agg["max_query_s"], st.get("max_query_s", 0))
        agg["retries"] += st.get("retries", 0)
        agg["nchecks"] += o["nchecks"]
        agg["nontrivial"] += o["nontrivial"]
        for fn, lab in o["covered"]:
            covered.setdefault(fn, set()).add(lab)
        verdict = "holds"
        if sm["status"] != "exhausted" and droppable:
            verdict = "partial"
            res.dropped.append({"instance": o["name"], "reason": "exploration stopped by the time budget after %d paths (%d queued)" % (sm["paths"], sm["remaining"])})
        elif sm["status"] != "exhausted":
            verdict = "bound-hit"
            res.error("%s instance %s: exploration not exhausted (%s after %d paths)" % (group, o["name"], sm["status"], sm["paths"]))
        for f in o["findings"]:
            if f.get("duplicate"):
                continue
            sig = "%s%s:%s" % (group + "/" if group else "", (sigmap(o["name"]) if sigmap else o["name"]), f["label"])
            if f["kind"] in ("PROP", "MEM", "UB", "NONFINITE", "RANGE"):
                if f["kind"] in tolerate or f["label"] in tolerate:
                    res.extra.setdefault("tolerated_findings", []).append({"instance": o["name"], "kind": f["kind"], "label": f["label"]})
                    continue
                if f.get("confirmed"):
                    verdict = "violated"
                    rp = res.save_replay(("%s_%s_%s" % (group, o["name"], f["label"])).replace("/", "_").replace(" ", "_")[:150] + ".c",
                                         "/* %s %s\n   %s\n   model: %s\n   confirmation: %s\n   replay-config: %s\n   replay-sources: %s */\n%s" % (
                                             f["kind"], f["label"], f["detail"], json.dumps(f["model"])[:1500], f["how"],
                                             " ".join(l.strip() for l in open(cfg) if l.startswith("#define A_HAVE_") or l.startswith("#define A_SIZE_REAL")).replace("#define ", "-D").replace(" 1", "=1") or "-",
                                             " ".join(os.path.relpath(x, VERIF) if x.startswith(VERIF) else "src/" + os.path.basename(x) for x in G["replay_srcs"]), f.get("c_text", "")))
                    res.violation(sig, "%s %s in %s: %s [%s]" % (f["kind"], f["label"], o["name"], f["detail"][:160], f["how"][:160]),
                                  replay=rp, model=f["model"])
                elif f["kind"] in ("MEM", "UB") and not f.get("mismatch"):
                    res.extra.setdefault("mem_ub_unconfirmed", []).append(
                        {"instance": o["name"], "label": f["label"], "detail": f["detail"], "how": f["how"], "model": f["model"]})
                    verdict = "holds(mem-ub-unconfirmed)" if verdict == "holds" else verdict
                else:
                    verdict = "unreproduced"
                    res.error("%s instance %s: finding %s/%s not confirmed natively: %s" % (group, o["name"], f["kind"], f["label"], f["how"]))
            elif droppable and f["kind"] == "UNKNOWN":
                res.dropped.append({"instance": o["name"], "reason": "solver unknown within the time limit", "query": f["detail"][:160]})
                verdict = "holds-except-dropped" if verdict == "holds" else verdict
            else:
                verdict = "inconclusive"
                res.error("%s instance %s: %s %s %s" % (group, o["name"], f["kind"], f["label"], f["detail"][:300]))
        if o.get("fragile_samples"):
            res.extra["validation_samples_skipped_near_tie"] = res.extra.get("validation_samples_skipped_near_tie", 0) + o["fragile_samples"]
        v = o.get("validated")
        if v:
            if v["ok"]:
                agg["validated"] += 1
                agg["validated_calls"] += v["calls"]
            else:
                res.error("%s instance %s: translator validation failed (llsym vs native): %s" % (group, o["name"], v["diffs"]))
        res.ob("%s%s" % (group + "/" if group else "", o["name"]), verdict, engine="llsym", paths=sm["paths"], completed=sm["completed"],
               infeasible=sm["infeasible"], queries=st["queries"], checks=o["nchecks"], solver_s=round(st["solver_s"], 2),
               wall_s=round(o["wall_s"], 2), nontrivial=o["nontrivial"] > 0 or sm["paths"] > 1)
        if len(res.samples) < 6 and v and v.get("model"):
            res.samples.append({"instance": o["name"], "witness_model": v["model"]})
    res.queries += agg["queries"]
    res.solver_s += agg["solver_s"]
    res.paths += agg["paths"]
    res.traces_validated += agg["validated"]
    res.extra.setdefault("groups", {})[group or "main"] = dict(instances=len(instances), wall_s=round(time.time() - t0, 1), **{k: (round(v, 2) if isinstance(v, float) else v) for k, v in agg.items()})
    cov = res.extra.setdefault("block_coverage", {})
    for fn, labs in covered.items():
        if fn in allfuncs:
            c = cov.setdefault(fn, {"covered": set(), "total": len(allfuncs[fn]), "all": allfuncs[fn]})
            c["covered"] |= labs
    return outs


def finish_coverage(res, must_cover=(), report_funcs=None):
    cov = res.extra.get("block_coverage", {})
    out = {}
    for fn, c in cov.items():
        if report_funcs is not None and fn not in report_funcs:
            continue
        unc = sorted(c["all"] - c["covered"])
        out[fn] = {"blocks": c["total"], "covered": len(c["covered"]), "uncovered": unc}
    for fn in must_cover:
        if fn not in cov or len(cov[fn]["covered"]) == 0:
            res.error("COVERAGE-GAP: no feasible path executed %s" % fn)
    res.extra["block_coverage"] = out
    res.extra["uncovered_blocks"] = {fn: v["uncovered"] for fn, v in out.items() if v["uncovered"]}
