/* C17: CRC and hashes (E1, assume-guarantee decomposition: table lemma, one-byte step lemma,
   concatenation lemma, reflection lemma; see DESIGN.md section 4/C17). */
#include "verif_cbmc.h"
#include "a/a.h"
#include "a/crc.h"
#include "a/hash.h"

/* ---- independent bit-by-bit references --------------------------------------------- */
#define REF(W, T)                                                                              \
    static T refrev##W(T x) { T r = 0; for (unsigned i = 0; i < W; ++i) { r = (T)((T)(r << 1) | ((x >> i) & 1)); } return r; } \
    /* remainder of (v xor byte aligned at the top) after 8 division steps, msb first */        \
    static T refm##W(T poly, T v, a_u8 byte)                                                   \
    {                                                                                          \
        v = (T)(v ^ (T)((T)byte << (W - 8)));                                                  \
        for (unsigned b = 0; b < 8; ++b) { T top = (T)(v >> (W - 1)) & 1; v = (T)(v << 1); if (top) { v = (T)(v ^ poly); } } \
        return v;                                                                              \
    }                                                                                          \
    /* lsb first, rpoly is the bit-reflected polynomial */                                     \
    static T refl##W(T rpoly, T v, a_u8 byte)                                                  \
    {                                                                                          \
        v = (T)(v ^ byte);                                                                     \
        for (unsigned b = 0; b < 8; ++b) { T low = v & 1; v = (T)(v >> 1); if (low) { v = (T)(v ^ rpoly); } } \
        return v;                                                                              \
    }
REF(8, a_u8)
REF(16, a_u16)
REF(32, a_u32)
REF(64, a_u64)

/* ---- (T) table lemma: after the real init every entry is the 8-step remainder of its index */
#define TABLE(W, T)                                                                            \
    void h_table_m##W(void)                                                                    \
    {                                                                                          \
        IN(T, poly);                                                                           \
        T tab[0x100];                                                                          \
        POISON(tab);                                                                           \
        a_crc##W##m_init(tab, poly);                                                           \
        REACHED();                                                                             \
        for (unsigned i = 0; i < 0x100; ++i)                                                   \
        {                                                                                      \
            CHECK(tab[i] == refm##W(poly, 0, (a_u8)i), "table" #W "m.entry-is-8-step-remainder"); \
        }                                                                                      \
    }                                                                                          \
    void h_table_l##W(void)                                                                    \
    {                                                                                          \
        IN(T, poly);                                                                           \
        T tab[0x100];                                                                          \
        POISON(tab);                                                                           \
        a_crc##W##l_init(tab, poly);                                                           \
        T rp = refrev##W(poly);                                                                \
        REACHED();                                                                             \
        for (unsigned i = 0; i < 0x100; ++i)                                                   \
        {                                                                                      \
            CHECK(tab[i] == refl##W(rp, 0, (a_u8)i), "table" #W "l.entry-is-8-step-remainder-reflected"); \
        }                                                                                      \
    }
TABLE(8, a_u8)
TABLE(16, a_u16)
TABLE(32, a_u32)
TABLE(64, a_u64)

/* ---- (S1) one-byte step lemma: arbitrary running value; table constrained only at the index
        the reference predicts (a fact established by (T)) ------------------------------- */
#define STEP(W, T, FM, FL)                                                                     \
    void h_step_m##W(void)                                                                     \
    {                                                                                          \
        IN(T, poly); IN(T, v); IN(a_u8, byte); IN_ARR(T, tab, 0x100);                          \
        a_u8 idx = (a_u8)((a_u8)(v >> (W - 8)) ^ byte);                                        \
        ASSUME(tab[idx] == refm##W(poly, 0, idx));                                             \
        a_u8 d[1]; d[0] = byte;                                                                \
        T r = FM(tab, d, 1, v);                                                                \
        REACHED();                                                                             \
        CHECK(r == refm##W(poly, v, byte), "crc" #W "m.byte-step-is-bitwise-division");        \
    }                                                                                          \
    void h_step_l##W(void)                                                                     \
    {                                                                                          \
        IN(T, rpoly); IN(T, v); IN(a_u8, byte); IN_ARR(T, tab, 0x100);                         \
        a_u8 idx = (a_u8)((a_u8)v ^ byte);                                                     \
        ASSUME(tab[idx] == refl##W(rpoly, 0, idx));                                            \
        a_u8 d[1]; d[0] = byte;                                                                \
        T r = FL(tab, d, 1, v);                                                                \
        REACHED();                                                                             \
        CHECK(r == refl##W(rpoly, v, byte), "crc" #W "l.byte-step-is-bitwise-division");       \
    }
STEP(8, a_u8, a_crc8, a_crc8)
STEP(16, a_u16, a_crc16m, a_crc16l)
STEP(32, a_u32, a_crc32m, a_crc32l)
STEP(64, a_u64, a_crc64m, a_crc64l)

/* ---- (C) concatenation lemma: arbitrary table, data, running value.  "Peel the last byte":
        F(d, n, v) == F(d + n - 1, 1, F(d, n - 1, v)) for every n <= NB and F(d, 0, v) == v make F a
        left fold of its own one-byte step, hence F(d+k, n-k, F(d, k, v)) == F(d, n, v) for every split
        (a directly stated symbolic split point makes `d + k` a symbolic pointer: 10 GB, no verdict). */
#ifndef NB
#define NB 4
#endif
#define CONCAT(NAME, T, F)                                                                     \
    void h_concat_##NAME(void)                                                                 \
    {                                                                                          \
        IN(T, v); IN_ARR(a_u8, d, NB); IN_ARR(T, tab, 0x100);                                  \
        REACHED();                                                                             \
        CHECK(F(tab, d, 0, v) == v, #NAME ".empty-message-keeps-value");                       \
        T prev = v;                                                                            \
        for (unsigned n = 1; n <= NB; ++n)                                                     \
        {                                                                                      \
            T whole = F(tab, d, n, v);                                                         \
            CHECK(F(tab, d + n - 1, 1, prev) == whole, #NAME ".pieces-equal-whole");           \
            prev = whole;                                                                      \
        }                                                                                      \
    }
CONCAT(crc8, a_u8, a_crc8)
CONCAT(crc16m, a_u16, a_crc16m)
CONCAT(crc16l, a_u16, a_crc16l)
CONCAT(crc32m, a_u32, a_crc32m)
CONCAT(crc32l, a_u32, a_crc32l)
CONCAT(crc64m, a_u64, a_crc64m)
CONCAT(crc64l, a_u64, a_crc64l)

/* ---- (R) reflection lemma on one division step (induction over bytes by (S1)):
        lsb-first step with the library's reflected polynomial = rev(msb-first step on reflected data) */
#define REFLECT(W, T)                                                                          \
    void h_reflect##W(void)                                                                    \
    {                                                                                          \
        IN(T, poly); IN(T, v); IN(a_u8, byte);                                                 \
        T lhs = refl##W(a_u##W##_rev(poly), v, byte);                                          \
        T rhs = a_u##W##_rev(refm##W(poly, a_u##W##_rev(v), a_u8_rev(byte)));                  \
        REACHED();                                                                             \
        CHECK(lhs == rhs, "crc" #W ".bit-orders-related-by-reflection");                       \
        CHECK(a_u##W##_rev(poly) == refrev##W(poly), "rev" #W ".is-bit-reflection");           \
    }
REFLECT(8, a_u8)
REFLECT(16, a_u16)
REFLECT(32, a_u32)
REFLECT(64, a_u64)

/* ---- (E) end-to-end on a concrete standard polynomial: real init + real update vs bitwise */
#ifndef NE
#define NE 3
#endif
#define E2E(W, T, POLY, FM, FL)                                                                \
    void h_e2e##W(void)                                                                        \
    {                                                                                          \
        IN(T, v); IN_ARR(a_u8, d, NE); IN(a_u8, n);                                            \
        ASSUME(n <= NE);                                                                       \
        T tm[0x100], tl[0x100];                                                                \
        a_crc##W##m_init(tm, (T)(POLY)); a_crc##W##l_init(tl, (T)(POLY));                      \
        T rm = v, rl = v, rp = refrev##W((T)(POLY));                                           \
        for (unsigned i = 0; i < NE; ++i) { if (i < n) { rm = refm##W((T)(POLY), rm, d[i]); rl = refl##W(rp, rl, d[i]); } } \
        REACHED();                                                                             \
        CHECK(FM(tm, d, n, v) == rm, "crc" #W "m.whole-message-is-bitwise-remainder");         \
        CHECK(FL(tl, d, n, v) == rl, "crc" #W "l.whole-message-is-bitwise-remainder");         \
    }
E2E(8, a_u8, 0x07, a_crc8, a_crc8)
E2E(16, a_u16, 0x8005, a_crc16m, a_crc16l)
E2E(32, a_u32, 0x04C11DB7u, a_crc32m, a_crc32l)
E2E(64, a_u64, 0x42F0E1EBA9EA3693ull, a_crc64m, a_crc64l)

/* ---- hashes -------------------------------------------------------------------------- */
#ifndef NH
#define NH 4
#endif
#define HASH(NAME, K)                                                                          \
    void h_hash_##NAME##_concat(void)                                                          \
    {                                                                                          \
        IN(a_u32, v); IN_ARR(a_u8, d, NH);                                                     \
        REACHED();                                                                             \
        CHECK(a_hash_##NAME##_(d, 0, v) == v, #NAME ".empty-keeps-value");                     \
        a_u32 prev = v;                                                                        \
        for (unsigned n = 1; n <= NH; ++n)                                                     \
        { /* peel the last byte: makes the hash a left fold of its one-byte step */            \
            a_u32 whole = a_hash_##NAME##_(d, n, v);                                           \
            CHECK(a_hash_##NAME##_(d + n - 1, 1, prev) == whole, #NAME ".pieces-equal-whole"); \
            prev = whole;                                                                      \
        }                                                                                      \
    }                                                                                          \
    void h_hash_##NAME##_step(void)                                                            \
    { /* one-byte step = the defining recurrence (multiplication by the constant K) */         \
        IN(a_u32, v); IN(a_u8, c);                                                             \
        a_u8 d[1]; d[0] = c;                                                                   \
        a_u32 kv = 0;                                                                          \
        for (unsigned i = 0; i < 32; ++i) { if (((a_u32)(K) >> i) & 1) { kv += v << i; } }     \
        REACHED();                                                                             \
        CHECK(a_hash_##NAME##_(d, 1, v) == kv + c, #NAME ".step-is-v*K+c");                    \
    }                                                                                          \
    void h_hash_##NAME##_str(void)                                                             \
    { /* string form = length form up to the first NUL; NULL returns v */                      \
        IN(a_u32, v); IN_ARR(a_u8, d, NH + 1); IN(a_u8, z);                                    \
        ASSUME(z <= NH);                                                                       \
        for (unsigned i = 0; i < NH; ++i) { if (i < z) { ASSUME(d[i] != 0); } }                \
        d[z] = 0;                                                                              \
        REACHED();                                                                             \
        CHECK(a_hash_##NAME(d, v) == a_hash_##NAME##_(d, z, v), #NAME ".string-form-equals-length-form"); \
        CHECK(a_hash_##NAME(A_NULL, v) == v, #NAME ".null-string-returns-value");              \
    }
HASH(bkdr, 131)
HASH(sdbm, 65599)
