/* C18: UTF-8 codec (E1). */
#include "verif_cbmc.h"
#include <stdlib.h>
#include "a/a.h"
#include "a/utf.h"

static unsigned ref_len(a_u32 c)
{
    return c < 0x80 ? 1 : c < 0x800 ? 2 : c < 0x10000 ? 3 : c < 0x200000 ? 4 : c < 0x4000000 ? 5 : 6;
}

/* every code point 1 .. 2^31-1: length, byte pattern, round trip, proper prefixes, NULL buffer */
void h_roundtrip(void)
{
    IN(a_u32, c); IN(a_u8, k);
    ASSUME(c >= 1 && c <= 0x7FFFFFFFu);
    a_u8 *buf = malloc(6); /* exact-size object: any write past 6 is a bounds failure */
    a_u8 junk = 0xA5; unsigned i;
    for (i = 0; i < 6; ++i) { buf[i] = junk; }
    unsigned n = a_utf_encode(c, buf);
    REACHED();
    CHECK(n == ref_len(c), "encode.length-table");
    CHECK(a_utf_encode(c, A_NULL) == n, "encode.null-buffer-length");
    for (i = 0; i < 6; ++i) { if (i >= n) { CHECK(buf[i] == junk, "encode.writes-only-n-bytes"); } }
    /* bit pattern of the standard */
    if (n == 1) { CHECK(buf[0] == c, "encode.ascii"); }
    else
    {
        a_u8 lead = (a_u8)(0xFF00u >> n);
        a_u32 acc = buf[0] & (0x7Fu >> n);
        CHECK((buf[0] & (a_u8)(0xFF80u >> n)) == lead, "encode.lead-byte");
        for (i = 1; i < 6; ++i) { if (i < n) { CHECK((buf[i] & 0xC0) == 0x80, "encode.continuation"); acc = (acc << 6) | (buf[i] & 0x3F); } }
        CHECK(acc == c, "encode.payload");
    }
    {
        a_u32 v = 0xDEADBEEF;
        unsigned m = a_utf_decode(buf, n, &v);
        CHECK(m == n, "decode.length");
        CHECK(v == c, "decode.value");
        CHECK(a_utf_decode(buf, n, A_NULL) == n, "decode.length-noval");
        /* more bytes available than needed changes nothing */
        CHECK(a_utf_decode(buf, 6, &v) == n && v == c, "decode.longer-buffer");
    }
    if (k < n)
    { /* proper prefix (k bytes, k may be 0), presented in an exact-size object */
        a_u8 *pre = malloc(k ? k : 1);
        a_u32 v = 0;
        for (i = 0; i < 6; ++i) { if (i < k) { pre[i] = buf[i]; } }
        CHECK(a_utf_decode(pre, k, &v) == 0, "decode.proper-prefix-fails");
        CHECK(a_utf_decode(pre, k, A_NULL) == 0, "decode.proper-prefix-fails-noval");
    }
}

/* arbitrary bytes in an exact-size heap object of symbolic length n <= NB */
#ifndef NB
#define NB 8
#endif
void h_decode_any(void)
{
    IN(a_u8, n); IN_ARR(a_u8, d, NB); IN(a_u8, wantval);
    ASSUME(n <= NB);
    a_u8 *p = malloc(n ? n : 1);
    unsigned i;
    for (i = 0; i < NB; ++i) { if (i < n) { p[i] = d[i]; } }
    a_u32 v = 0;
    unsigned m = a_utf_decode(p, n, wantval ? &v : A_NULL); /* any read at offset >= n is a bounds failure */
    REACHED();
    CHECK(m <= n, "decode.never-more-than-available");
    for (i = 1; i < NB; ++i) { if (i < m) { CHECK((d[i] & 0xC0) == 0x80, "decode.continuation-bytes-only"); } }
    if (n && d[0] == 0) { CHECK(m == 0, "decode.nul-reports-zero"); }
    /* Deliberately NOT demanded (the property does not state them): rejection of stray
       continuation bytes / over-long forms / 0xFE-0xFF leads as such, or a particular value for
       non-canonical sequences. */
}

/* length counter: memory safety on an exact-size object */
void h_length_safety(void)
{
    IN(a_u8, n); IN_ARR(a_u8, d, NB); IN(a_u8, wantstop);
    ASSUME(n <= NB);
    a_u8 *p = malloc(n ? n : 1);
    unsigned i;
    for (i = 0; i < NB; ++i) { if (i < n) { p[i] = d[i]; } }
    a_size stop = 0;
    a_size len = a_utf_length(p, n, wantstop ? &stop : A_NULL);
    REACHED();
    CHECK(len <= n, "length.at-most-n");
    CHECK(stop <= n, "length.stop-in-buffer");
}
/* length counter = number of decoder steps; *stop = consumed bytes; stops at NUL / undecodable */
void h_length(void)
{
    IN(a_u8, n); IN_ARR(a_u8, d, NB);
    ASSUME(n <= NB);
    unsigned i;
    a_size stop = 12345;
    a_size len = a_utf_length(d, n, &stop);
    REACHED();
    a_size off = 0, cnt = 0;
    for (i = 0; i < NB + 1; ++i)
    {
        unsigned m = a_utf_decode(d + off, n - off, A_NULL);
        if (!m) { break; }
        off += m; ++cnt;
    }
    CHECK(len == cnt, "length.counts-decoder-steps");
    CHECK(stop == off, "length.stop-is-consumed");
    CHECK(a_utf_length(d, n, A_NULL) == len, "length.null-stop-same-count");
}

/* a_utf_length_: lead-byte skipping counter never reads at an offset >= num */
void h_length_(void)
{
    IN(a_u8, n); IN_ARR(a_u8, d, NB);
    ASSUME(n <= NB);
    a_u8 *p = malloc(n ? n : 1);
    unsigned i;
    for (i = 0; i < NB; ++i) { if (i < n) { p[i] = d[i]; } }
    a_size len = a_utf_length_(p, n); /* bounds-checked by CBMC */
    REACHED();
    CHECK(len <= n, "length_.at-most-n");
}

/* text made of encoder output: both counters advance by exactly the encoded lengths */
void h_length_valid(void)
{
    IN(a_u32, c1); IN(a_u32, c2); IN(a_u8, cut);
    ASSUME(c1 >= 1 && c1 <= 0x7FFFFFFFu && c2 >= 1 && c2 <= 0x7FFFFFFFu);
    a_u8 tmp[13] = {0};
    unsigned n1 = a_utf_encode(c1, tmp);
    unsigned n2 = a_utf_encode(c2, tmp + n1);
    a_size stop = 99;
    REACHED();
    CHECK(a_utf_length(tmp, n1 + n2, &stop) == 2, "length.valid-text-count");
    CHECK(stop == n1 + n2, "length.valid-text-stop");
    CHECK(a_utf_length(tmp, 13, &stop) == 2 && stop == n1 + n2, "length.valid-text-stops-at-nul");
    CHECK(a_utf_length_(tmp, n1 + n2) == 2, "length_.valid-text-count");
    /* cut anywhere inside the second character: one complete character */
    if (cut >= 1 && cut < n2)
    {
        CHECK(a_utf_length(tmp, n1 + cut, &stop) == 1 && stop == n1, "length.truncated-text");
        CHECK(a_utf_length_(tmp, n1 + cut) == 1, "length_.truncated-text");
    }
}
