"""C04 (also used by C07): vector / fixed buffer against an abstract sequence of byte tuples."""
import z3
import core
from core import bv, is_sym
from replay import Tr
from fault import succeeded, failed_now, OpFailed

I64, I32, I8 = core.ir.int_t(64), core.ir.int_t(32), core.ir.int_t(8)
M64 = (1 << 64) - 1
A_SUCCESS, A_FAILURE, A_INVALID, A_OBOUNDS, A_OMEMORY = 0, 1, 2, 3, 4

C_PRELUDE = """
static int cmp_b0(void const *a, void const *b) { unsigned char x = *(unsigned char const *)a, y = *(unsigned char const *)b; return (x > y) - (x < y); }
static unsigned dtor_calls; static void dtor_count(void *p) { (void)p; ++dtor_calls; }
static int copy_1(void *d, void const *s) { memcpy(d, s, 1); return 0; }
static int copy_2(void *d, void const *s) { memcpy(d, s, 2); return 0; }
static int copy_3(void *d, void const *s) { memcpy(d, s, 3); return 0; }
static int copy_5(void *d, void const *s) { memcpy(d, s, 5); return 0; }
static int copy_8(void *d, void const *s) { memcpy(d, s, 8); return 0; }
"""


def beq(a, b):
    if isinstance(a, int) and isinstance(b, int):
        return a == b
    return bv(a, 8) == bv(b, 8)


def conj(cs):
    out = []
    for c in cs:
        if isinstance(c, bool):
            if not c:
                return False
        else:
            out.append(c)
    if not out:
        return True
    return z3.And(*out) if len(out) > 1 else out[0]


def disj(cs):
    out = []
    for c in cs:
        if isinstance(c, bool):
            if c:
                return True
        else:
            out.append(c)
    if not out:
        return False
    return z3.Or(*out) if len(out) > 1 else out[0]


def ule(a, b):
    if isinstance(a, int) and isinstance(b, int):
        return a <= b
    return z3.ULE(bv(a, 8), bv(b, 8))


def elems_eq(xs, ys):
    if len(xs) != len(ys):
        return False
    return conj([beq(a, b) for x, y in zip(xs, ys) for a, b in zip(x, y)])


class Seq:
    """Concrete-shaped container state + abstract model.  kind: 'vec' | 'buf'."""

    def __init__(self, ex, kind, siz, mem, num, tag="c", slack=0):
        self.ex, self.kind = ex, kind
        self.tr = getattr(ex, "tr", None) or Tr(ex, C_PRELUDE)
        tr = self.tr
        self.siz = siz
        if kind == "vec":
            self.hdr = tr.alloc(32, tag + "_hdr")
            self.blk = tr.alloc(siz * mem + slack, tag + "_blk") if mem else 0
            tr.store(self.hdr, self.blk, 8)
            tr.store(self.hdr + 8, siz, 8)
            tr.store(self.hdr + 16, num, 8)
            tr.store(self.hdr + 24, mem, 8)
            base = self.blk
        else:
            self.hdr = tr.alloc(24 + siz * mem, tag + "_buf")
            tr.store(self.hdr, num, 8)
            tr.store(self.hdr + 8, mem, 8)
            tr.store(self.hdr + 16, siz, 8)
            base = self.hdr + 24
        self.model = []
        for i in range(mem):
            e = [ex.fresh_bv("%s_e%d_%d" % (tag, i, j), 8) for j in range(siz)]
            for j, b in enumerate(e):
                tr.store(base + i * siz + j, b, 1)
            if i < num:
                self.model.append(e)
        self.cmp = ("fn", "cmp_b0", ex.func_ptr(self.h_cmp, "cmp_b0"))
        self.dtor_calls = []
        self.dtor = ("fn", "dtor_count", ex.func_ptr(self.h_dtor, "dtor_count"))
        self.copy = ("fn", "copy_%d" % siz, ex.func_ptr(self.h_copy, "copy_%d" % siz))
        self.pfx = "a_" + kind

    # callbacks
    def h_cmp(self, ex, a, b):
        x, y = ex.load(a, I8), ex.load(b, I8)
        if isinstance(x, int) and isinstance(y, int):
            return ((x > y) - (x < y)) & 0xFFFFFFFF
        x, y = bv(x, 8), bv(y, 8)
        return z3.If(z3.UGT(x, y), z3.BitVecVal(1, 32), z3.If(z3.ULT(x, y), z3.BitVecVal(0xFFFFFFFF, 32), z3.BitVecVal(0, 32)))

    def h_dtor(self, ex, p):
        self.dtor_calls.append(p)
        # a destructor may read its element: must be inside owned storage
        ex.read_bytes(p, self.cur()[1])
        return None

    def h_copy(self, ex, d, s):
        ex.memcpy(d, s, self.cur()[1])
        return 0

    # header access
    def cur(self):
        """(ptr, siz, num, mem) as stored now."""
        ex = self.ex
        cz = lambda v: ex.concretize(v) if is_sym(v) else v
        if self.kind == "vec":
            ptr, siz, num, mem = (ex.load(self.hdr + o, I64) for o in (0, 8, 16, 24))
            ptr = cz(ptr)
            if ptr and not self.tr.owned(ptr):
                self.tr.adopt_mem(self.hdr, "vec_blk")
            return (ptr, cz(siz), num, cz(mem))
        num, mem, siz = (ex.load(self.hdr + o, I64) for o in (0, 8, 16))
        return (self.hdr + 24, cz(siz), num, cz(mem))

    def elements(self, n=None):
        ex = self.ex
        ptr, siz, num, mem = self.cur()
        n = num if n is None else n
        return [ex.read_bytes(ptr + i * siz, siz) for i in range(n)]

    def check_state(self, what, expect=None, prefix_only=None):
        """Representation invariant + contents == abstract model."""
        ex = self.ex
        model = self.model if expect is None else expect
        ptr, siz, num, mem = self.cur()
        if is_sym(num):
            ex.check(bv(num, 64) == len(model), what + ":count-differs-from-model", "symbolic count %s" % str(num)[:60])
            num = len(model)
        ptr, siz, mem = [ex.concretize(v) if is_sym(v) else v for v in (ptr, siz, mem)]
        ex.check(num <= mem, what + ":count-exceeds-capacity", "num=%s mem=%s" % (num, mem))
        ex.check(siz == self.siz, what + ":element-size-changed", "siz=%s" % siz)
        if mem:
            o = ex.obj_at(ptr)
            ex.check(o is not None and o.alive and ptr + siz * mem <= o.base + o.size, what + ":capacity-exceeds-owned-storage",
                     "ptr=%s siz=%s mem=%s block=%s" % (ptr, siz, mem, o.size if o else None))
        ex.check(num == len(model), what + ":count-differs-from-model", "num=%s model=%d" % (num, len(model)))
        got = self.elements(num)
        if prefix_only is not None:
            got, model = got[:prefix_only], model[:prefix_only]
        ex.check(elems_eq(got, model), what + ":contents-differ-from-model")

    def inside(self, p, what):
        """Returned element pointer lies inside owned storage and designates a whole element slot."""
        ex = self.ex
        ptr, siz, num, mem = self.cur()
        ex.check(isinstance(p, int) and isinstance(ptr, int) and ptr <= p and p + siz <= ptr + siz * mem and (p - ptr) % siz == 0,
                 what + ":returned-pointer-outside-owned-storage", "p=%s ptr=%s siz=%s mem=%s" % (p, ptr, siz, mem))

    def sorted_assume(self, lo=0, hi=None):
        m = self.model[lo:hi]
        for a, b in zip(m, m[1:]):
            self.ex.assume(ule(a[0], b[0]))

    def is_sorted(self, elems):
        return conj([ule(a[0], b[0]) for a, b in zip(elems, elems[1:])])

    # ---------------------------------------------------------------- operations (each updates the model)
    def idx_arg(self, count, name):
        """A symbolic index: either a concretised in-range position or any value >= count (up to SIZE_MAX)."""
        ex = self.ex
        choices = ["beyond"] + (["in"] if count else [])
        if ex.pick(choices, name + "_class") == "in":
            pos = ex.pick(list(range(count)), name + "_pos")
            return pos, pos
        idx = ex.fresh_bv(name, 64)
        if ex.concrete is None:
            ex.add(z3.UGE(idx, count))
        return idx, None

    def op(self, name):
        return getattr(self, "op_" + name)()

    def call(self, f, *args, **kw):
        r = self.tr.call(self.pfx + "_" + f, self.hdr, *args, **kw)
        if is_sym(r):
            r = self.ex.concretize(r)      # forks over the feasible return values (bounded)
        return r

    def full(self):
        return len(self.model) >= self.cur()[3]

    def op_push_back(self):
        n = len(self.model)
        was_full = self.full()
        p = self.call("push_back", ret="ptr")
        if self.kind == "buf" and was_full:
            self.ex.check(p == 0, "push_back:full-buffer-must-refuse")
            self.check_state("push_back-refused")
            return
        succeeded(self.ex, p != 0, "push_back:unexpected-failure")
        ptr, siz, num, mem = self.cur()
        self.ex.check(p == ptr + siz * n, "push_back:returns-new-last-slot")
        self.inside(p, "push_back")
        self.model.append(self.ex.read_bytes(p, siz))
        self.check_state("push_back")

    def op_push_fore(self):
        self._insert_at(0, "push_fore", lambda: self.call("push_fore", ret="ptr"))

    def op_insert(self):
        idx, pos = self.idx_arg(len(self.model), "ins_idx")
        self._insert_at(pos if pos is not None else len(self.model), "insert", lambda: self.call("insert", idx, ret="ptr"))

    def _insert_at(self, pos, what, do):
        was_full = self.full()
        p = do()
        if self.kind == "buf" and was_full:
            self.ex.check(p == 0, what + ":full-buffer-must-refuse")
            self.check_state(what + "-refused")
            return
        succeeded(self.ex, p != 0, what + ":unexpected-failure")
        ptr, siz, num, mem = self.cur()
        self.ex.check(p == ptr + siz * pos, what + ":returns-slot-at-position", "p=%s expected index %d" % (p, pos))
        self.inside(p, what)
        self.model.insert(pos, self.ex.read_bytes(p, siz))
        self.check_state(what)

    def op_pull_back(self):
        self._remove_at(len(self.model) - 1, "pull_back", lambda: self.call("pull_back", ret="ptr"))

    def op_pull_fore(self):
        self._remove_at(0, "pull_fore", lambda: self.call("pull_fore", ret="ptr"))

    def op_remove(self):
        idx, pos = self.idx_arg(len(self.model), "rem_idx")
        self._remove_at(pos if pos is not None else len(self.model) - 1, "remove", lambda: self.call("remove", idx, ret="ptr"))

    def _remove_at(self, pos, what, do):
        p = do()
        if not self.model:
            self.ex.check(p == 0, what + ":empty-must-return-null")
            self.check_state(what + "-empty")
            return
        self.ex.check(p != 0, what + ":unexpected-null")
        self.inside(p, what)
        victim = self.model.pop(pos)
        got = self.ex.read_bytes(p, self.siz)
        self.ex.check(elems_eq([got], [victim]), what + ":removed-element-not-intact")
        self.check_state(what)

    def op_store(self):
        ex = self.ex
        idx, pos = self.idx_arg(len(self.model), "st_idx")
        n = ex.pick([0, 1, 2], "st_n")
        use_copy = ex.pick([0, 1], "st_copy")
        src = self.tr.alloc(max(1, n * self.siz), "src")
        new = []
        for i in range(n):
            e = [ex.fresh_bv("src%d_%d" % (i, j), 8) for j in range(self.siz)]
            for j, b in enumerate(e):
                self.tr.store(src + i * self.siz + j, b, 1)
            new.append(e)
        mem = self.cur()[3]
        rc = self.call("store", idx, src, n, self.copy if use_copy else 0, ret="i32")
        if self.kind == "buf" and len(self.model) + n > mem:
            ex.check(rc == A_OBOUNDS, "store:must-refuse-what-does-not-fit", "rc=%s" % rc)
            self.check_state("store-refused")
            return
        succeeded(ex, rc == 0, "store:unexpected-failure", "rc=%s" % rc)
        at = pos if pos is not None else len(self.model)
        self.model[at:at] = new
        self.check_state("store")

    def op_erase(self):
        ex = self.ex
        cnt = len(self.model)
        idx, pos = self.idx_arg(cnt, "er_idx")
        with_dtor = ex.pick([0, 1], "er_dtor")
        if pos is None:
            n = ex.fresh_bv("er_n", 64)           # anything, the index is already out of range
            rc = self.call("erase", idx, n, self.dtor if with_dtor else 0, ret="i32")
            ex.check(rc == A_OBOUNDS, "erase:index-beyond-end-must-fail", "rc=%s" % rc)
            ex.check(not self.dtor_calls, "erase:destructor-called-for-nothing")
            self.check_state("erase-out-of-range")
            return
        if ex.pick(["fits", "beyond"], "er_n_class") == "fits":
            n = ex.pick(list(range(0, cnt - pos)), "er_n") if cnt - pos > 0 else 0
            end = pos + n
        else:
            n = ex.fresh_bv("er_n", 64)
            if ex.concrete is None:
                ex.add(z3.UGE(n, cnt - pos))
            end = cnt
        rc = self.call("erase", idx, n, self.dtor if with_dtor else 0, ret="i32")
        succeeded(ex, rc == 0, "erase:unexpected-failure", "rc=%s" % rc)
        ptr, siz = self.cur()[0], self.siz
        if with_dtor:
            ex.check(self.dtor_calls == [ptr + siz * i for i in range(pos, end)], "erase:destructor-not-applied-to-erased-range",
                     "calls=%s" % [hex(x) if isinstance(x, int) else x for x in self.dtor_calls])
        del self.model[pos:end]
        self.check_state("erase")

    def op_setn(self):
        ex = self.ex
        n = ex.pick(list(range(0, 8)), "setn_n")
        with_dtor = ex.pick([0, 1], "setn_dtor")
        cnt, mem = len(self.model), self.cur()[3]
        rc = self.call("setn", n, self.dtor if with_dtor else 0, ret="i32" if self.kind == "vec" else "void")
        if self.kind == "vec":
            succeeded(ex, rc == 0, "setn:unexpected-failure")
            newn = n
        else:
            newn = min(n, mem)
        if with_dtor:
            ex.check(len(self.dtor_calls) == max(0, cnt - n), "setn:destructor-count", "%d calls" % len(self.dtor_calls))
        keep = min(cnt, newn)
        ptr, siz, num, mem2 = self.cur()
        ex.check(num == newn, "setn:count", "num=%s expected %d" % (num, newn))
        self.model = self.model[:keep] + self.elements(newn)[keep:]
        self.check_state("setn")

    def op_setm(self):
        ex = self.ex
        m = ex.pick(list(range(0, 10)), "setm_m")
        cnt = len(self.model)
        if self.kind == "vec":
            rc = self.call("setm", m, ret="i32")
            succeeded(ex, rc == 0, "setm:unexpected-failure")
            ex.check(self.cur()[3] >= m, "setm:capacity-not-reached")
            self.check_state("setm")
        else:
            if m < cnt:
                return      # shrinking below the element count is outside the documented use (noted in DESIGN)
            p = self.call("setm", m, ret="ptr")
            succeeded(ex, p != 0, "setm:unexpected-failure")
            self.hdr = p
            self.tr.adopt(p, 24 + self.siz * m, "buf_moved")
            ex.check(self.cur()[3] == m, "setm:capacity")
            self.check_state("setm")

    def op_setz(self):
        ex = self.ex
        z = ex.pick([0, 1, 2, 3, 5, 8], "setz_z")
        ptr, siz, num, mem = self.cur()
        self.call("setz", z, 0, ret="void")
        z = z or 1
        self.siz = z
        self.model = []
        p2, s2, n2, m2 = self.cur()
        ex.check(s2 == z and n2 == 0, "setz:size-or-count")
        ex.check(m2 * z <= mem * siz, "setz:capacity-exceeds-owned-bytes", "mem=%s siz=%s" % (m2, z))
        self.check_state("setz")

    def op_sort_fore(self):
        ex = self.ex
        if len(self.model) < 1:
            return self._sort_noop("sort_fore")
        self.sorted_assume(1)
        old = list(self.model)
        self.call("sort_fore", self.cmp, ret="void")
        new = self.elements(len(old))
        ex.check(self.cur()[2] == len(old), "sort_fore:count-changed")
        cands = [old[1:j + 1] + [old[0]] + old[j + 1:] for j in range(len(old))]
        ex.check(disj([elems_eq(new, c) for c in cands]), "sort_fore:not-the-old-elements-with-the-first-reinserted")
        ex.check(self.is_sorted(new), "sort_fore:result-not-sorted")
        self.model = new
        self.check_state("sort_fore")

    def op_sort_back(self):
        ex = self.ex
        if len(self.model) < 1:
            return self._sort_noop("sort_back")
        self.sorted_assume(0, len(self.model) - 1)
        old = list(self.model)
        self.call("sort_back", self.cmp, ret="void")
        new = self.elements(len(old))
        ex.check(self.cur()[2] == len(old), "sort_back:count-changed")
        cands = [old[:j] + [old[-1]] + old[j:-1] for j in range(len(old))]
        ex.check(disj([elems_eq(new, c) for c in cands]), "sort_back:not-the-old-elements-with-the-last-reinserted")
        ex.check(self.is_sorted(new), "sort_back:result-not-sorted")
        self.model = new
        self.check_state("sort_back")

    def _sort_noop(self, what):
        self.call(what, self.cmp, ret="void")
        self.check_state(what + "-empty")

    def op_push_sort(self):
        ex = self.ex
        self.sorted_assume()
        old = list(self.model)
        key = self.tr.alloc(self.siz, "key")
        kb = [ex.fresh_bv("key%d" % j, 8) for j in range(self.siz)]
        for j, b in enumerate(kb):
            self.tr.store(key + j, b, 1)
        was_full = self.full()
        p = self.call("push_sort", key, self.cmp, ret="ptr")
        if self.kind == "buf" and was_full:
            ex.check(p == 0, "push_sort:full-buffer-must-refuse")
            self.check_state("push_sort-refused")
            return
        succeeded(ex, p != 0, "push_sort:unexpected-failure")
        self.inside(p, "push_sort")
        ptr, siz, num, mem = self.cur()
        ex.check(num == len(old) + 1, "push_sort:count")
        j = (p - ptr) // siz
        ex.check(0 <= j <= len(old), "push_sort:slot-position")
        # the caller now fills the slot with the key, as documented
        self.tr.store_bytes(p, kb)
        new = self.elements(num)
        ex.check(elems_eq(new, old[:j] + [kb] + old[j:]), "push_sort:old-elements-lost-or-reordered")
        ex.check(self.is_sorted(new), "push_sort:result-not-sorted")
        self.model = new
        self.check_state("push_sort")

    def op_access(self):
        """at / of / top / end accessors (inline in the headers; wrapper TU)."""
        ex = self.ex
        ptr, siz, num, mem = self.cur()
        k = self.kind
        idx = ex.fresh_bv("at_idx", 64)
        p = self.tr.call("w_%s_at" % k, self.hdr, idx, ret="ptr")
        inr = z3.ULT(idx, mem) if is_sym(idx) else idx < mem
        if ex.branch(inr):
            ex.check(eq64(p, add64(ptr, mul64(idx, siz))), "at:wrong-slot")
            i = ex.concretize(idx)
            self.inside(ptr + siz * i, "at")
        else:
            ex.check(eq64(p, 0), "at:non-null-for-index-beyond-capacity")
        sidx = ex.fresh_bv("of_idx", 64)
        p = self.tr.call("w_%s_of" % k, self.hdr, sidx, ret="ptr")
        eff = (z3.If(sidx >= 0, sidx, sidx + num)) if is_sym(sidx) else ((sidx if sidx < (1 << 63) else sidx + num) & M64)
        inr = z3.ULT(eff, mem) if is_sym(eff) else eff < mem
        if ex.branch(inr):
            ex.check(eq64(p, add64(ptr, mul64(eff, siz))), "of:wrong-slot")
        else:
            ex.check(eq64(p, 0), "of:non-null-for-index-beyond-capacity")
        t = self.tr.call("w_%s_top" % k, self.hdr, ret="ptr")
        ex.check(t == (ptr + siz * (num - 1) if num else 0), "top:wrong-element")
        e = self.tr.call("w_%s_end" % k, self.hdr, ret="ptr")
        if k == "vec":
            ex.check(e == (ptr + siz * num if ptr else 0), "end:wrong-pointer")
        else:
            ex.check(e == ptr + siz * num, "end:wrong-pointer")
        self.check_state("access")


def eq64(a, b):
    if isinstance(a, int) and isinstance(b, int):
        return (a & M64) == (b & M64)
    return bv(a, 64) == bv(b, 64)


def add64(a, b):
    if isinstance(a, int) and isinstance(b, int):
        return (a + b) & M64
    return bv(a, 64) + bv(b, 64)


def mul64(a, b):
    if isinstance(a, int) and isinstance(b, int):
        return (a * b) & M64
    return bv(a, 64) * bv(b, 64)
