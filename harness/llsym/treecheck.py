"""Shared harness families for C01 (AVL) and C02 (red-black): inductive step + bounded histories."""
import os, sys
import z3
import trees, core
from trees import Tree, lt, eq, conj

CFG = {"KIND": "avl", "PFX": "a_avl"}
I64 = core.ir.int_t(64)


def step_harness(shape, op):
    """One operation with symbolic argument from the constructed valid tree `shape`."""
    def h(ex):
        t = Tree(ex, CFG['KIND'])
        nodes = t.build(shape)
        ex.path_tags = [trees.shape_str(shape), op]
        if op == "insert":
            k = ex.fresh_bv("newkey", 64)
            n = t.new_node(k, "new")
            # stale contents of the node object must not matter
            t.tr.store(n, ex.fresh_bv("junk_l", 64), 8)
            t.tr.store(n + 8, ex.fresh_bv("junk_r", 64), 8)
            t.tr.store(n + 16, ex.fresh_bv("junk_p", 64), 8)
            before = t.snapshot()
            r = t.tr.call(CFG["PFX"] + "_insert", t.root, n, t.cmp, ret="ptr")
            if r != 0:
                ex.check(r in nodes, "insert:duplicate-returns-resident-node", hex(r) if isinstance(r, int) else str(r))
                ex.check(eq(t.key[r], k), "insert:returned-node-has-equal-key")
                after = t.snapshot()
                same = all(a == b for x in nodes for a, b in zip(before[0][x], after[0][x])) and before[1] == after[1]
                ex.check(same, "insert:duplicate-changes-nothing")
                t.check_invariants(set(nodes), "insert-duplicate")
            else:
                ex.check(conj([z3not(eq(t.key[x], k)) for x in nodes]), "insert:null-only-when-key-absent")
                t.check_invariants(set(nodes) | {n}, "insert")
        elif op == "remove":
            v = ex.pick(nodes, "victim")
            t.tr.call(CFG["PFX"] + "_remove", t.root, v, ret="void")
            t.check_invariants(set(nodes) - {v}, "remove")
        elif op == "search":
            k = ex.fresh_bv("probe", 64)
            ctx = t.tr.alloc(trees.NODE, "probe")
            t.tr.store(ctx + trees.KEY, k, 8)
            before = t.snapshot()
            r = t.tr.call(CFG["PFX"] + "_search", t.root, ctx, t.cmp, ret="ptr")
            if r != 0:
                ex.check(r in nodes, "search:returns-resident-node")
                ex.check(eq(t.key[r], k), "search:found-node-has-equal-key")
            else:
                ex.check(conj([z3not(eq(t.key[x], k)) for x in nodes]), "search:null-only-when-absent")
            ex.check(before == t.snapshot(), "search:does-not-modify")
    return h


def z3not(c):
    import z3
    return (not c) if isinstance(c, bool) else z3.Not(c)


def history_harness(ops):
    """ops: string over I (insert fresh symbolic key) / R (remove a symbolic resident) from the empty tree."""
    def h(ex):
        t = Tree(ex, CFG['KIND'])
        live = []
        ex.path_tags = [ops]
        for i, op in enumerate(ops):
            if op == "I":
                k = ex.fresh_bv("key%d" % i, 64)
                n = t.new_node(k, "h")
                r = t.tr.call(CFG["PFX"] + "_insert", t.root, n, t.cmp, ret="ptr")
                if r != 0:
                    ex.check(r in live and r != n, "history:duplicate-returns-resident")
                    ex.check(eq(t.key[r], k), "history:duplicate-key-equal")
                else:
                    ex.check(conj([z3not(eq(t.key[x], k)) for x in live]), "history:null-only-when-absent")
                    live.append(n)
            else:
                if not live:
                    raise core.Infeasible()
                v = ex.pick(live, "victim%d" % i)
                t.tr.call(CFG["PFX"] + "_remove", t.root, v, ret="void")
                live.remove(v)
            t.check_invariants(set(live), "history-step%d-%s" % (i, op))
    return h


def builder(params):
    if params[0] == "step":
        _, shape, op = params
        return "%s/%s" % (trees.shape_str(shape), op), step_harness(shape, op)
    return params[1], history_harness(params[1])


def op_strings(k):
    out = []

    def rec(s, live):
        if len(s) == k:
            out.append(s)
            return
        rec(s + "I", live + 1)
        if live > 0:
            rec(s + "R", live - 1)
    rec("", 0)
    return [s for s in out]


