"""C07: symbolic allocation failure. Every request with size > 0 made through a_alloc while armed
gets a fresh symbolic fail/succeed Boolean (the executor forks), so every subset of failing requests
is a path."""
import core, z3


class OpFailed(Exception):
    """The operation reported failure after an allocation failed (expected under faults)."""


class Fault:
    def __init__(self, ex):
        self.ex = ex
        self.armed = False
        self.failed_in_op = False
        self.decisions = []       # one Boolean per size>0 request, in order (native replay schedule)
        self.lib_blocks = []
        ex.fault = self
        ex.hooks["a_alloc_"] = self.hook

    def hook(self, ex, addr, size):
        if core.is_sym(size):
            size = ex.concretize(size, limit=64)
        if size:
            if self.armed:
                f = ex.fresh_bool("fail%d" % len(self.decisions))
                d = ex.branch(f) if core.is_sym(f) else bool(f)
            else:
                d = False
            self.decisions.append(d)
            if d:
                self.failed_in_op = True
                return 0
        r = ex.run(ex.funcs["a_alloc_"], [addr, size])
        if size and r:
            self.lib_blocks.append(r)
        return r

    def arm(self):
        self.armed, self.failed_in_op = True, False

    def disarm(self):
        self.armed = False

    def c_prelude(self):
        mask = 0
        for i, d in enumerate(self.decisions):
            if d:
                mask |= 1 << i
        return ("""
#include <stddef.h>
extern void *(*a_alloc)(void *, size_t);
extern void *a_alloc_(void *, size_t);
static unsigned long long verif_fail_mask = 0x%xull; static unsigned verif_alloc_k;
static void *verif_alloc(void *p, size_t n)
{
    if (n) { if (verif_alloc_k < 64 && ((verif_fail_mask >> verif_alloc_k++) & 1)) { return 0; } }
    return a_alloc_(p, n);
}
__attribute__((constructor)) static void verif_install(void) { a_alloc = verif_alloc; }
""" % mask)

    def check_ledger(self, what):
        ex = self.ex
        live = [b for b in self.lib_blocks if ex.obj_at(b) is not None and ex.obj_at(b).alive and ex.obj_at(b).base == b]
        ex.check(not live, what + ":blocks-not-released", "%d block(s) obtained from the allocator still live: %s" % (len(live), [hex(b) for b in live[:4]]))


def succeeded(ex, cond, label, detail=""):
    """cond: the operation reports success. Under an allocation fault the operation must report failure."""
    f = getattr(ex, "fault", None)
    if f is not None and f.failed_in_op:
        ex.check(not cond, label.replace("unexpected-failure", "success-reported-although-an-allocation-failed"), detail)
        raise OpFailed()
    ex.check(cond, label, detail)


def failed_now(ex):
    f = getattr(ex, "fault", None)
    return f is not None and f.failed_in_op
