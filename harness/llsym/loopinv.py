"""Loop-invariant proofs for the integer kernels of C19 on the real IR (llsym), full width, no unwinding bound.

The executor runs the real function.  At the loop header a hook
  * (first arrival) checks the invariant for the values coming from the function entry - base case, decided in the
    bit-vector domain after forking on the concrete start value,
  * replaces the loop-carried registers by fresh symbols constrained only by the invariant (havoc),
  * (second arrival, i.e. after ONE symbolic iteration of the real loop body) proves the invariant for the new values
    and ends the path; the path that leaves the loop returns to the harness, which proves the post-condition.
Obligations of the step / exit are translated from the executor's bit-vector terms into integer arithmetic with the
mod-2^w semantics kept (bvint.T) and decided by z3: udiv plus two double-width multipliers get no verdict when
bit-blasted (cvc5 --solve-bv-as-int=sum: none in 120 s either), z3's integer engine needs about 0.1 s.
One inductive step covers every iteration count, so the claim has no unwinding bound; what it rests on is stated in
the evidence (invariant, translator, the dropped pre-loop constraints)."""
import math
import z3
import core
import bvint
from core import is_sym


class Obl:
    def __init__(self):
        self.items = []         # (name, verdict, seconds, model or None)

    def add(self, name, verdict, secs, model=None):
        self.items.append((name, verdict, secs, model))


def int_prove(ex, tx, hyps, goal, timeout_ms=40000, use_pc=True):
    """pc (translated, untranslatable constraints dropped) + ranges + hyps  |=  goal ?
    Two z3 configurations are tried in turn: the plain SMT core without the eager equation solving of the default
    solver (which substitutes a witness equality b = k*d everywhere and turns the linear Euclid equation into a
    cubic one: no verdict), then the default solver."""
    import time, os
    fs = []
    dropped = 0
    for q in (ex.pc if use_pc else ()):
        try:
            fs.append(tx.form(q))
        except bvint.Untranslatable:
            dropped += 1
    fs += list(hyps)
    neg_at = len(fs)
    fs.append(z3.Not(goal))
    if use_pc:
        fs += tx.ranges()
    verdict, model = "unknown", None
    t0 = time.time()
    for mk in (z3.Solver, z3.SimpleSolver):
        s = mk()
        s.set("timeout", timeout_ms)
        s.add(*fs)
        r = s.check()
        ex.stats["queries"] += 1
        if r == z3.unsat:
            verdict = "unsat"
            # vacuity guard: the assumptions alone must be satisfiable
            w = z3.Solver()
            w.set("timeout", 10000)
            w.add(*[f for k, f in enumerate(fs) if k != neg_at])
            if w.check() == z3.unsat:
                verdict = "vacuous"
            break
        if r == z3.sat:
            m = s.model()
            verdict, model = "sat", {n: m.eval(v, model_completion=True).as_long() for n, (v, w) in tx.vars.items()}
            break
    dt = time.time() - t0
    ex.stats["solver_s"] += dt
    if verdict == "unknown" and os.environ.get("VERIF_DUMP"):
        with open(os.path.join(os.environ["VERIF_DUMP"], "int_%d.smt2" % ex.stats["queries"]), "w") as fh:
            fh.write("\n".join(f.sexpr() for f in fs))
    return verdict, dt, model


def header_of(mods, fname):
    for m in mods:
        f = m.funcs.get(fname)
        if f is None:
            continue
        pos = {lab: i for i, lab in enumerate(f.order)}
        for lab in f.order:
            for ins in f.blocks[lab]:
                tg = [ins[2]] if ins[0] == "br" else ([ins[3], ins[4]] if ins[0] == "cbr" else [])
                for t_ in tg:
                    if pos[t_] <= pos[lab]:
                        return t_
    raise core.Unsupported("no loop in " + fname)


# ------------------------------------------------------------------------------------------------ isqrt
def isqrt_harness(fn, w, header, obl):
    """Newton iteration x1 = (x0 + x/x0) >> 1 from a power-of-two start.  Invariant at the header:
       1 <= x1 <= 2^(w/2)  and  (x1+1)^2 > x   (x1 never falls below floor(sqrt x))."""
    half = w // 2

    def h(ex):
        x = ex.fresh_bv("x", w)
        tx = bvint.T()
        X = tx.term(x)
        st = {"hyp": []}

        def hook(ex, n, phis, regs):
            (reg, ty), = phis
            v = regs[reg]
            if n == 1:
                c = ex.concretize(v, limit=80) if is_sym(v) else v          # forks: one path per start value
                if not (1 <= c <= 2 ** half):
                    obl.add("%s/base/start-value-range" % fn, "sat", 0.0, {"x": None, "start": c})
                    raise core.Infeasible()
                ww = 2 * w + 4
                ok = ex.check(z3.UGT(z3.BitVecVal((c + 1) ** 2, ww), z3.ZeroExt(ww - w, x)), "%s:start-value-below-the-root" % fn, "start value %d" % c, abort=False)
                obl.add("%s/base/start=2^%d" % (fn, c.bit_length() - 1), "unsat" if ok else "sat-bv", 0.0)
                hv = ex.fresh_bv("x1", w)
                regs[reg] = hv
                ex.add(z3.And(z3.UGE(hv, 1), z3.ULE(hv, 2 ** half)))       # the bit-vector part of the invariant (no division by zero in the body)
                Hh = tx.term(hv)
                st["hyp"] = [Hh >= 1, Hh <= 2 ** half, (Hh + 1) * (Hh + 1) > X]
            else:
                V = tx.term(v)
                r, dt, m = int_prove(ex, tx, st["hyp"], z3.And(V >= 1, V <= 2 ** half, (V + 1) * (V + 1) > X))
                obl.add("%s/step/invariant-preserved" % fn, r, dt, m)
                raise core.Infeasible()
        ex.loop_hooks[(fn, header)] = hook
        r = ex.call(fn, x)
        R = tx.term(r) if is_sym(r) else z3.IntVal(r)
        res, dt, m = int_prove(ex, tx, st["hyp"], z3.And(R * R <= X, (R + 1) * (R + 1) > X))
        obl.add("%s/%s/result-is-the-integer-square-root" % (fn, "exit" if st["hyp"] else "small-argument"), res, dt, m)
    return h


# ------------------------------------------------------------------------------------------------ gcd
def gcd_harness(fn, w, header, obl):
    """Euclid: (a, b) -> (b, a mod b) while b != 0.  Invariant, for an arbitrary divisor d >= 1:
         (d | a and d | b)  <=>  (d | a0 and d | b0)      and      (a, b) = (0, 0)  <=>  (a0, b0) = (0, 0).
    'd | x' is x mod d = 0; for the facts taken as hypotheses the witness form x = k*d (fresh k) is added, which is what
    z3 needs to chain divisibility through a = q*b + r (mod-form only: no verdict in 60 s; with witnesses: 0.01 s)."""
    def h(ex):
        a0, b0 = ex.fresh_bv("a", w), ex.fresh_bv("b", w)
        tx = bvint.T()
        A0, B0 = tx.term(a0), tx.term(b0)
        d = z3.Int("d")
        dv = lambda dd, v: v % dd == 0
        kcount = [0]

        def witness(dd, v):
            kcount[0] += 1
            k = z3.Int("k%d" % kcount[0])
            return z3.Implies(dv(dd, v), v == k * dd)

        def inv(dd, a, b):
            return z3.And(dv(dd, a), dv(dd, b)) == z3.And(dv(dd, A0), dv(dd, B0))
        st = {"hyp": []}

        def hook(ex, n, phis, regs):
            vals = [regs[r] for r, t in phis]
            # identify which phi is a and which is b from the first arrival: they carry the arguments
            if n == 1:
                role = {}
                for (r, t), v in zip(phis, vals):
                    role[r] = "a" if (is_sym(v) and v.eq(a0)) else ("b" if (is_sym(v) and v.eq(b0)) else None)
                if sorted(role.values(), key=str) != ["a", "b"]:
                    obl.add("%s/base/loop-state-is-not-the-argument-pair" % fn, "unknown", 0.0)
                    raise core.Infeasible()
                obl.add("%s/base/invariant-holds-for-the-arguments" % fn, "unsat", 0.0)      # (a, b) = (a0, b0): the invariant is an identity
                st["role"] = role
                ha, hb = ex.fresh_bv("ha", w), ex.fresh_bv("hb", w)
                for r, t in phis:
                    regs[r] = ha if role[r] == "a" else hb
                Ha, Hb = tx.term(ha), tx.term(hb)
                st["H"] = (Ha, Hb)
                st["hyp"] = [d >= 1, inv(d, Ha, Hb), witness(d, Ha), witness(d, Hb), witness(d, A0), witness(d, B0),
                             z3.And(Ha == 0, Hb == 0) == z3.And(A0 == 0, B0 == 0),
                             z3.Implies(Ha >= 1, z3.And(inv(Ha, Ha, Hb), witness(Ha, A0), witness(Ha, B0)))]       # the instance d := current a
            else:
                role = st["role"]
                new = {role[r]: tx.term(v) if is_sym(v) else z3.IntVal(v) for (r, t), v in zip(phis, vals)}
                Na, Nb = new["a"], new["b"]
                # new remainder: witnesses for the facts that appear as assumptions inside the goal's equivalence
                # The equivalence is proved one direction at a time, each as a chain of solver-checked lemmas (z3 decides
                # every link in milliseconds but not the chain as a whole: it does not find the witness (q*ka + kb) itself):
                #   G1  for all x, m: d >= 1, x >= 0, x = m*d  =>  x mod d = 0                      (witness => divisibility)
                #   G2  for all x:    d >= 1, x >= 0, x mod d = 0  =>  x = (x div d)*d              (divisibility => witness)
                Ha, Hb = st["H"]
                (Q, Rr), = tx.dm.values()          # the quotient / remainder of the body's a % b
                xg, mg = z3.Int("xg"), z3.Int("mg")
                ka, kb = z3.Int("ka"), z3.Int("kb")
                links = [("G1:witness=>divisibility", [d >= 1, xg >= 0, xg == mg * d], dv(d, xg), False),
                         ("G2:divisibility=>witness", [d >= 1, xg >= 0, dv(d, xg)], xg == (xg / d) * d, False),
                         # new => original: d | b and d | (a mod b), as b = ka*d and a mod b = kb*d (G2); then a = (q*ka + kb)*d, so d | a (G1)
                         ("new=>original:a=(q*ka+kb)*d", [d >= 1, Na == ka * d, Nb == kb * d], Ha == (Q * ka + kb) * d, True),
                         ("new=>original:equivalence-of-the-invariant", st["hyp"] + [dv(d, Ha), dv(d, Hb)], z3.And(dv(d, A0), dv(d, B0)), True),
                         # original => new: the invariant gives d | a and d | b, as a = ka*d, b = kb*d (G2); then a mod b = (ka - q*kb)*d (G1)
                         ("original=>new:equivalence-of-the-invariant", st["hyp"] + [dv(d, A0), dv(d, B0)], z3.And(dv(d, Ha), dv(d, Hb)), True),
                         ("original=>new:a-mod-b=(ka-q*kb)*d", [d >= 1, Ha == ka * d, Hb == kb * d], Nb == (ka - Q * kb) * d, True)]
                for nm, hy, goal, use_pc in links:
                    r1, dt1, m1 = int_prove(ex, tx, hy, goal, use_pc=use_pc)
                    obl.add("%s/step/common-divisors-preserved/%s" % (fn, nm), r1, dt1, m1)
                r2, dt2, m2 = int_prove(ex, tx, st["hyp"], z3.And(Na == 0, Nb == 0) == z3.And(A0 == 0, B0 == 0))
                obl.add("%s/step/zero-pair-clause-preserved" % fn, r2, dt2, m2)
                raise core.Infeasible()
        ex.loop_hooks[(fn, header)] = hook
        g = ex.call(fn, a0, b0)
        G = tx.term(g) if is_sym(g) else z3.IntVal(g)
        hy = st["hyp"]
        for name, goal in (("zero-only-for-two-zeros", (G == 0) == z3.And(A0 == 0, B0 == 0)),
                           ("divides-both-arguments", z3.Implies(G >= 1, z3.And(dv(G, A0), dv(G, B0)))),
                           ("every-common-divisor-divides-it", z3.Implies(z3.And(d >= 1, dv(d, A0), dv(d, B0), G >= 1), z3.And(dv(d, G), d <= G)))):
            r, dt, m = int_prove(ex, tx, hy + [witness(d, G)], goal)
            obl.add("%s/exit/%s" % (fn, name), r, dt, m)
    return h


# ------------------------------------------------------------------------------------------------ lcm
def lcm_harness(fn, w, obl):
    """lcm(a, b) = a / gcd(a, b) * b with gcd taken by the contract the gcd proof establishes (assume-guarantee):
    g = 0 exactly for two zeros, otherwise g >= 1 divides both arguments.  Claim: whenever a*b/g is representable in the
    word, the result times g equals the product (so the result is a*b/g); two zeros give zero."""
    gcdfn = fn.replace("lcm", "gcd")

    def h(ex):
        a0, b0 = ex.fresh_bv("a", w), ex.fresh_bv("b", w)
        tx = bvint.T()
        A, B = tx.term(a0), tx.term(b0)
        ka, kb = z3.Int("ka"), z3.Int("kb")
        st = {"hyp": [], "G": None}

        def gcd_stub(ex, x, y):
            same = all(is_sym(u) and u.eq(v) for u, v in ((x, a0), (y, b0)))
            if not same:
                obl.add("%s/gcd-not-called-with-the-arguments" % fn, "unknown", 0.0)
                raise core.Infeasible()
            g = ex.fresh_bv("g", w)
            G = tx.term(g)
            st["G"] = G
            st["hyp"] = [(G == 0) == z3.And(A == 0, B == 0), z3.Implies(G >= 1, z3.And(A == ka * G, B == kb * G, ka >= 0, kb >= 0))]
            return g
        ex.hooks[gcdfn] = gcd_stub
        r = ex.call(fn, a0, b0)
        R = tx.term(r) if is_sym(r) else z3.IntVal(r)
        G = st["G"]
        if G is None:
            obl.add("%s/gcd-not-called" % fn, "unknown", 0.0)
            return
        for name, goal in (("two-zeros-give-zero", z3.Implies(z3.And(A == 0, B == 0), R == 0)),
                           ("quotient-is-exact", z3.Implies(G >= 1, z3.And(A % G == 0, B % G == 0))),
                           ("result-times-gcd-is-the-product-when-representable", z3.Implies(z3.And(G >= 1, ka * B < 2 ** w), z3.And(R == ka * B, R * G == A * B)))):
            res, dt, m = int_prove(ex, tx, st["hyp"], goal)
            obl.add("%s/%s" % (fn, name), res, dt, m)
    return h


def run(mods, fn, kind, w, time_budget=600):
    """Explore the harness; returns (Obl, summary, executor)."""
    obl = Obl()
    header = header_of(mods, fn) if kind != "lcm" else None
    ex = core.Exec(mods, solver="inc", timeout_ms=120000)
    h = lcm_harness(fn, w, obl) if kind == "lcm" else (isqrt_harness if kind == "isqrt" else gcd_harness)(fn, w, header, obl)
    summ = core.explore(ex, h, max_paths=2000, time_budget=time_budget)
    return obl, summ, ex, header
