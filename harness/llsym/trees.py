"""Shared by C01/C02/C03: tree shapes, state construction, invariant oracles (AVL and red-black)."""
import z3
import core
from replay import Tr

NODE = 32          # 24 bytes of a_avl_node / a_rbt_node (packed parent word) + 8 bytes key
KEY = 24

C_PRELUDE = """
static int cmp_key(void const *a, void const *b)
{
    int64_t x = *(int64_t const *)((char const *)a + 24), y = *(int64_t const *)((char const *)b + 24);
    return x < y ? -1 : x > y;
}
"""


# ---------------------------------------------------------------- shapes
def avl_shapes(h, memo={}):
    """All AVL shapes of height exactly h; None = empty; (l, r) = node."""
    if h in memo:
        return memo[h]
    if h == 0:
        r = [None]
    elif h == 1:
        r = [(None, None)]
    else:
        a, b = avl_shapes(h - 1), avl_shapes(h - 2)
        r = [(x, y) for x in a for y in a] + [(x, y) for x in a for y in b] + [(x, y) for x in b for y in a]
    memo[h] = r
    return r


def rb_gen(bh, color, maxn, memo={}):
    """Red-black subtrees with black height bh (black nodes on a root-to-nil path), root colour
    `color` ('B' or 'R'), at most maxn nodes, no red-red.  Tree = None | (color, l, r)."""
    key = (bh, color, maxn)
    if key in memo:
        return memo[key]
    out = []
    if color == "B":
        if bh == 0:
            out = [None]
        elif maxn >= 1:
            for l in rb_gen(bh - 1, "B", maxn - 1) + rb_gen(bh - 1, "R", maxn - 1):
                rest = maxn - 1 - size(l)
                for r in rb_gen(bh - 1, "B", rest) + rb_gen(bh - 1, "R", rest):
                    out.append(("B", l, r))
    else:
        if maxn >= 1:
            for l in rb_gen(bh, "B", maxn - 1):
                rest = maxn - 1 - size(l)
                for r in rb_gen(bh, "B", rest):
                    out.append(("R", l, r))
    memo[key] = out
    return out


def size(t):
    if t is None:
        return 0
    if len(t) == 2:
        return 1 + size(t[0]) + size(t[1])
    return 1 + size(t[1]) + size(t[2])


def height(t):
    if t is None:
        return 0
    l, r = (t[0], t[1]) if len(t) == 2 else (t[1], t[2])
    return 1 + max(height(l), height(r))


def rb_trees_upto(n):
    """Every valid red-black tree (black root) with at most n nodes, including the empty tree."""
    out = []
    bh = 0
    while True:
        sel = rb_gen(bh, "B", n)
        if bh > 0 and not sel:
            break
        out += sel
        bh += 1
    return out


def shape_str(t):
    if t is None:
        return "."
    if len(t) == 2:
        return "(%s%s)" % (shape_str(t[0]), shape_str(t[1]))
    return "%s(%s%s)" % (t[0], shape_str(t[1]), shape_str(t[2]))


# ---------------------------------------------------------------- comparison hook
def s64(v):
    return v - (1 << 64) if isinstance(v, int) and v >> 63 else v


def make_cmp(ex):
    def cmp_key(ex, a, b):
        x = ex.load(a + KEY if isinstance(a, int) else a + KEY, core.ir.int_t(64))
        y = ex.load(b + KEY, core.ir.int_t(64))
        if isinstance(x, int) and isinstance(y, int):
            x, y = s64(x), s64(y)
            return (0xFFFFFFFF if x < y else int(x > y))
        x, y = core.bv(x, 64), core.bv(y, 64)
        return z3.If(x < y, z3.BitVecVal(0xFFFFFFFF, 32), z3.If(x > y, z3.BitVecVal(1, 32), z3.BitVecVal(0, 32)))
    return ("fn", "cmp_key", ex.func_ptr(cmp_key, "cmp_key"))


def lt(ex, a, b):
    if isinstance(a, int) and isinstance(b, int):
        return s64(a) < s64(b)
    return core.bv(a, 64) < core.bv(b, 64)


def eq(a, b):
    if isinstance(a, int) and isinstance(b, int):
        return a == b
    return core.bv(a, 64) == core.bv(b, 64)


def conj(cs):
    cs = [c for c in cs if not (isinstance(c, bool) and c)]
    if any(isinstance(c, bool) and not c for c in cs):
        return False
    if not cs:
        return True
    return z3.And(*cs)


# ---------------------------------------------------------------- state construction
class Tree:
    def __init__(self, ex, kind):
        self.ex, self.kind = ex, kind
        self.tr = Tr(ex, C_PRELUDE)
        self.root = self.tr.alloc(8, "root")
        self.tr.store(self.root, 0, 8)
        self.nodes = []       # addresses in creation order
        self.key = {}         # addr -> key term
        self.cmp = make_cmp(ex)

    def new_node(self, key, name="n"):
        a = self.tr.alloc(NODE, "%s%d" % (name, len(self.nodes)))
        self.tr.store(a + KEY, key, 8)
        self.nodes.append(a)
        self.key[a] = key
        return a

    def build(self, shape, keys=None):
        """Construct `shape` directly in memory with symbolic ordered keys. Returns in-order node list."""
        ex = self.ex
        n = size(shape)
        order = []

        def rec(t, parent):
            if t is None:
                return 0, 0
            if self.kind == "avl":
                l, r = t
            else:
                col, l, r = t
            a = self.tr.alloc(NODE, "n")
            la, lh = rec(l, a)
            order.append(a)
            ra, rh = rec(r, a)
            self.tr.store(a + 0, la, 8)
            self.tr.store(a + 8, ra, 8)
            if self.kind == "avl":
                self.tr.store(a + 16, parent | ((rh - lh) + 1), 8)
            else:
                self.tr.store(a + 16, parent | (1 if col == "B" else 0), 8)   # a_rbt: bit0 = colour (1 = black?) set by caller mapping
            return a, 1 + max(lh, rh)
        ra, _ = rec(shape, 0)
        self.tr.store(self.root, ra, 8)
        ks = []
        for i, a in enumerate(order):
            k = keys[i] if keys is not None else ex.fresh_bv("k%d" % i, 64)
            self.tr.store(a + KEY, k, 8)
            self.key[a] = k
            self.nodes.append(a)
            ks.append(k)
        for i in range(len(ks) - 1):
            ex.assume(lt(ex, ks[i], ks[i + 1]))
        return order

    # ------------------------------------------------------------ oracles
    def snapshot(self):
        ex = self.ex
        return {a: [ex.load(a + o, core.ir.int_t(64)) for o in (0, 8, 16)] for a in self.nodes}, ex.load(self.root, core.ir.int_t(64))

    def check_invariants(self, expected, what):
        """expected: set of node addresses that must be exactly the tree's contents."""
        ex = self.ex
        I64 = core.ir.int_t(64)
        root = ex.load(self.root, I64)
        seen = []
        ok = [True]
        kind = self.kind

        def fail(label, detail=""):
            ex.check(False, what + ":" + label, detail)

        def walk(n, parent, depth):
            if n == 0:
                return 0, 0          # height, black height
            if not isinstance(n, int):
                fail("symbolic-link")
            if n not in self.key:
                fail("link-to-foreign-node", hex(n))
            if n in seen or depth > 64:
                fail("cycle-or-shared-node", hex(n))
            l, r, pw = ex.load(n, I64), ex.load(n + 8, I64), ex.load(n + 16, I64)
            if not all(isinstance(v, int) for v in (l, r, pw)):
                fail("symbolic-link")
            if kind == "avl":
                if (pw & ~3) != parent:
                    fail("parent-link", "node %#x parent word %#x expected parent %#x" % (n, pw, parent))
            else:
                if (pw & ~1) != parent:
                    fail("parent-link", "node %#x parent word %#x expected parent %#x" % (n, pw, parent))
            lh, lb = walk(l, n, depth + 1)
            seen.append(n)
            rh, rb = walk(r, n, depth + 1)
            if kind == "avl":
                f = (pw & 3) - 1
                if abs(rh - lh) > 1:
                    fail("height-difference", "node %#x heights %d/%d" % (n, lh, rh))
                if f != rh - lh:
                    fail("stored-balance-factor", "node %#x stored %d actual %d" % (n, f, rh - lh))
                return 1 + max(lh, rh), 0
            red = self.is_red(pw)
            if red:
                for c in (l, r):
                    if c and self.is_red(ex.load(c + 16, I64)):
                        fail("red-node-with-red-child", hex(n))
            if lb != rb:
                fail("black-height", "node %#x black heights %d/%d" % (n, lb, rb))
            return 1 + max(lh, rh), lb + (0 if red else 1)
        walk(root, 0, 0)
        if kind == "rbt" and root and self.is_red(ex.load(root + 16, I64)):
            fail("root-not-black")
        if set(seen) != set(expected):
            fail("contents", "tree holds %d nodes, abstract set has %d" % (len(seen), len(expected)))
        ex.check(conj([lt(ex, self.key[seen[i]], self.key[seen[i + 1]]) for i in range(len(seen) - 1)]), what + ":search-tree-order")
        return seen

    def is_red(self, pw):
        return (pw & 1) == 0
