"""Helpers for the exact-real (z3 Real) harnesses: C08, C09, C10-C16."""
from fractions import Fraction
import z3
import core
from replay import Tr

F64 = core.ir.F64
I64 = core.ir.int_t(64)
I32 = core.ir.int_t(32)


def R(v):
    return core.to_real(v)


TOL = [None]      # set to a Fraction in concrete (replay) runs where sqrt & co. are floating approximations


def set_mode(ex, tol=Fraction(1, 10 ** 7)):
    TOL[0] = tol if ex.concrete is not None else None


def req(a, b):
    if isinstance(a, (Fraction, int)) and isinstance(b, (Fraction, int)):
        a, b = Fraction(a), Fraction(b)
        if TOL[0] is not None:
            return abs(a - b) <= TOL[0] * (1 + abs(a) + abs(b))
        return a == b
    return R(a) == R(b)


def rle(a, b):
    if isinstance(a, (Fraction, int)) and isinstance(b, (Fraction, int)):
        if TOL[0] is not None:
            return Fraction(a) <= Fraction(b) + TOL[0] * (1 + abs(Fraction(a)) + abs(Fraction(b)))
        return a <= b
    return R(a) <= R(b)


def rlt(a, b):
    if isinstance(a, (Fraction, int)) and isinstance(b, (Fraction, int)):
        return a < b
    return R(a) < R(b)


def rabs(a):
    if isinstance(a, (Fraction, int)):
        return abs(a)
    return z3.If(a >= 0, a, -a)


def conj(cs):
    out = []
    for c in cs:
        if isinstance(c, bool):
            if not c:
                return False
        else:
            out.append(c)
    if not out:
        return True
    return z3.And(*out) if len(out) > 1 else out[0]


def disj(cs):
    out = []
    for c in cs:
        if isinstance(c, bool):
            if c:
                return True
        else:
            out.append(c)
    if not out:
        return False
    return z3.Or(*out) if len(out) > 1 else out[0]


def neg(c):
    return (not c) if isinstance(c, bool) else z3.Not(c)


def close(ex, a, b, scale, label, rel=Fraction(1, 10 ** 9)):
    """|a-b| <= rel*scale: used in concrete (replay) mode where sqrt etc. are approximations."""
    if ex.concrete is not None:
        return abs(Fraction(a) - Fraction(b)) <= rel * max(Fraction(1), abs(Fraction(scale)))
    return req(a, b)


class Arr:
    """A C array of a_real in harness-owned memory (exact size: any access outside is a MEM finding)."""

    def __init__(self, ex, tr, n, name, init=None, junk=False):
        self.ex, self.tr, self.n = ex, tr, n
        self.addr = tr.alloc(8 * n, name) if n else tr.alloc(1, name)
        self.v = []
        for i in range(n):
            if init is not None:
                x = init[i]
            else:
                x = ex.fresh_real("%s%d" % (name, i))
            tr.store(self.addr + 8 * i, x, 8, isfloat=True)
            self.v.append(x)

    def get(self):
        return [self.ex.load(self.addr + 8 * i, F64) for i in range(self.n)]


def horner(cs, x):
    """Value of sum cs[i] x^i as an expression."""
    y = None
    for c in reversed(cs):
        y = c if y is None else mul(y, x) + c if False else add(mul(y, x), c)
    return y if y is not None else Fraction(0)


def add(a, b):
    if isinstance(a, (Fraction, int)) and isinstance(b, (Fraction, int)):
        return Fraction(a) + Fraction(b)
    return R(a) + R(b)


def sub(a, b):
    if isinstance(a, (Fraction, int)) and isinstance(b, (Fraction, int)):
        return Fraction(a) - Fraction(b)
    return R(a) - R(b)


def mul(a, b):
    if isinstance(a, (Fraction, int)) and isinstance(b, (Fraction, int)):
        return Fraction(a) * Fraction(b)
    if isinstance(a, (Fraction, int)) and a == 0 or isinstance(b, (Fraction, int)) and b == 0:
        return Fraction(0)
    return R(a) * R(b)


def ssum(xs):
    t = Fraction(0)
    for x in xs:
        t = add(t, x)
    return t


class Piece:
    """The polynomial piece (degree <= 3 in x) that an evaluator returns for query times inside one segment.
    Symbolic run: the returned term with x substituted.  Concrete (replay) run: the interpolating cubic
    through four query times inside the segment (exact in rational arithmetic)."""

    def __init__(self, ex, f, x, expr, lo, hi):
        self.ex, self.x, self.expr = ex, x, expr
        if ex.concrete is not None:
            lo, hi, x = Fraction(lo), Fraction(hi), Fraction(x)
            ts = [lo + (hi - lo) * Fraction(k, 5) for k in (1, 2, 3, 4)]
            ys = [Fraction(f(t)) for t in ts]
            self.ts, self.ys = ts, ys

    def at(self, t):
        if self.ex.concrete is None:
            if isinstance(self.expr, (Fraction, int)):
                return self.expr
            return z3.substitute(self.expr, (self.x, R(t)))
        t = Fraction(t)
        tot = Fraction(0)
        for i, (ti, yi) in enumerate(zip(self.ts, self.ys)):
            w = yi
            for j, tj in enumerate(self.ts):
                if j != i:
                    w *= (t - tj) / (ti - tj)
            tot += w
        return tot

    def deriv_at_x(self):
        """derivative at the query time x: exact five-point stencil for polynomials of degree <= 4"""
        if self.ex.concrete is None:
            if isinstance(self.expr, (Fraction, int)):
                return Fraction(0)
            f = lambda d: z3.substitute(self.expr, (self.x, self.x + d))
            return (-f(2) + 8 * f(1) - 8 * f(-1) + f(-2)) / 12
        x = Fraction(self.x)
        return (-self.at(x + 2) + 8 * self.at(x + 1) - 8 * self.at(x - 1) + self.at(x - 2)) / 12


class UF:
    """A libm function in the exact-real domain: every call returns a fresh real constrained by the function's
    contract; functional consistency / monotonicity / parity between call sites are added pairwise
    (Ackermann style), so the nlsat tactic applies (no uninterpreted symbols)."""

    def __init__(self, ex, name, contract=None, increasing=False, odd=False, even=False, concrete=None):
        self.ex, self.name, self.contract = ex, name, contract
        self.increasing, self.odd, self.even, self.concrete = increasing, odd, even, concrete
        self.calls = []
        ex.hooks[name] = self

    def __call__(self, ex, x):
        if ex.concrete is not None:
            r = Fraction(self.concrete(float(x)))
            self.calls.append((x, r))
            return r
        x = ex.as_real(x)
        for a, r in self.calls:
            if isinstance(a, Fraction) and isinstance(x, Fraction) and a == x:
                return r
        r = ex.fresh_real(self.name)
        if self.contract:
            ex.add(self.contract(R(x), r))
        for a, q in self.calls:
            ex.add(z3.Implies(R(a) == R(x), q == r))
            if self.increasing:
                ex.add(z3.Implies(R(a) < R(x), q < r))
                ex.add(z3.Implies(R(x) < R(a), r < q))
            if self.odd:
                ex.add(z3.Implies(R(a) == -R(x), q == -r))
            if self.even:
                ex.add(z3.Implies(R(a) == -R(x), q == r))
        self.calls.append((x, r))
        return r

    def result_for(self, arg_pred):
        """results of the calls whose argument satisfies arg_pred(arg) syntactically (used by structure clauses)"""
        return [(a, r) for a, r in self.calls if arg_pred(a)]
