"""Shared by C12 / C13: the fuzzy PID controller in the exact-real domain."""
from fractions import Fraction
import z3
import core
from replay import Tr
from realcheck import *

ZERO, ONE = Fraction(0), Fraction(1)
PID_F = ["kp", "ki", "kd", "summax", "summin", "sum", "outmax", "outmin", "out", "var", "fdb", "err"]
OFF = dict(pid=0, me=96, mec=104, mkp=112, mki=120, mkd=128, idx=136, val=144, opr=152, kp=160, ki=168, kd=176, nrule=184, nfuzz=188)
MF_TRAP, MF_TRI = 7, 8
OPRS = ["equ", "cap", "cap_algebra", "cap_bounded", "cup", "cup_algebra", "cup_bounded"]


def install_math(ex):
    """libm in the exact-real domain: pow with an integer exponent is repeated multiplication; exp / general pow
    are uninterpreted with sign/monotonicity contracts instantiated per call site."""
    EXP = z3.Function("EXP", z3.RealSort(), z3.RealSort())
    POW = z3.Function("POW", z3.RealSort(), z3.RealSort(), z3.RealSort())
    seen = []

    def h_exp(ex, t):
        import math
        if ex.concrete is not None:
            return Fraction(math.exp(float(t)))
        if isinstance(t, Fraction) and t == 0:
            return ONE
        r = EXP(R(t))
        ex.add(r > 0)
        ex.add((r <= 1) == (R(t) <= 0))
        ex.add((r == 1) == (R(t) == 0))
        for t2, r2 in seen:
            ex.add(z3.Implies(R(t) <= t2, r <= r2))
            ex.add(z3.Implies(t2 <= R(t), r2 <= r))
        seen.append((R(t), r))
        return r

    def h_pow(ex, x, y):
        import math
        if isinstance(y, Fraction) and y.denominator == 1 and 0 <= y <= 8:
            r = ONE
            for _ in range(int(y)):
                r = mul(r, x)
            return r
        if ex.concrete is not None:
            return Fraction(math.pow(float(x), float(y)))
        r = POW(R(x), R(y))
        ex.add(z3.Implies(R(x) >= 0, r >= 0))
        ex.add(z3.Implies(z3.And(R(x) >= 0, R(x) <= 1, R(y) >= 0), r <= 1))
        ex.add(z3.Implies(R(x) == 0, z3.If(R(y) > 0, r == 0, True)))
        return r
    ex.hooks["exp"] = h_exp
    ex.hooks["pow"] = h_pow


def equ_contract(ex):
    """Inside the controller the equilibrium operator sqrt(ab)*sqrt(1-(1-a)(1-b)) is replaced by its contract
    (assume-guarantee; the contract itself is an obligation of C13): a value in [0,1] that is 0 exactly when
    a*b is 0.  With the real square roots every query carries two algebraic numbers per rule and does not
    finish (2500 s per instance measured)."""
    def h_equ(ex, a, b):
        import math
        if ex.concrete is not None:
            a, b = float(a), float(b)
            return Fraction(math.sqrt(max(a * b, 0.0)) * math.sqrt(max(1 - (1 - a) * (1 - b), 0.0)))
        r = ex.fresh_real("equ")
        ex.add(z3.And(r >= 0, r <= 1, (r == 0) == (R(a) * R(b) == 0)))
        return r
    ex.hooks["a_fuzzy_equ"] = h_equ


def set_pid(ex, tr, base, vals):
    for i, n in enumerate(PID_F):
        tr.store(base + 8 * i, vals.get(n, ZERO), 8, isfloat=True)


def get_pid(ex, base):
    return {n: ex.load(base + 8 * i, F64) for i, n in enumerate(PID_F)}


class FuzzyCtl:
    """A fuzzy PID controller of order `nrule` over triangular / trapezoidal sets with symbolic ordered
    parameters, symbolic consequent tables, a scratch buffer of exactly A_PID_FUZZY_BFUZZ(nfuzz) bytes."""

    def __init__(self, ex, tr, nrule, nfuzz, opr, shapes, partition=False, strict=True, shared=False):
        self.ex, self.tr, self.nrule = ex, tr, nrule
        self.ctx = tr.alloc(192, "fuzzy")
        tr.acts.append(("note", "zero the controller structure"))
        for o in range(0, 192, 8):
            tr.store(self.ctx + o, 0, 8)
        self.sets = {}
        for which in ("me", "mec"):
            if shared and which == "mec":          # the same table for error and error change
                tr.store(self.ctx + OFF["mec"], ex.load(self.ctx + OFF["me"], core.ir.int_t(64)), 8)
                self.sets["mec"] = self.sets["me"]
                continue
            words = []
            sets = []
            for i, sh in enumerate(shapes):
                k = 4 if sh == "trap" else 3
                ps = [ex.fresh_real("%s_%d_%d" % (which, i, j)) for j in range(k)]
                for a, b in zip(ps, ps[1:]):
                    ex.assume(rlt(a, b) if strict else rle(a, b))
                words += [Fraction(MF_TRAP if sh == "trap" else MF_TRI)] + ps
                sets.append((sh, ps))
            if partition:       # at most two neighbouring sets overlap
                for i in range(len(sets) - 2):
                    ex.assume(rle(sets[i][1][-1], sets[i + 2][1][0]))
            words.append(ZERO)  # A_MF_NUL terminator
            arr = Arr(ex, tr, len(words), which, init=words)
            tr.store(self.ctx + OFF[which], arr.addr, 8)
            self.sets[which] = sets
        self.tabs = {}
        for which in ("mkp", "mki", "mkd"):
            t = Arr(ex, tr, nrule * nrule, which)
            tr.store(self.ctx + OFF[which], t.addr, 8)
            self.tabs[which] = t
        tr.store(self.ctx + OFF["nrule"], nrule, 4)
        size = 4 * 2 * nfuzz + 8 * nfuzz * (2 + nfuzz)
        self.buf = tr.alloc(size, "bfuzz")
        tr.call("a_pid_fuzzy_set_bfuzz", self.ctx, self.buf, nfuzz, ret="void")
        tr.call("a_pid_fuzzy_set_opr", self.ctx, OPRS.index(opr), ret="void")
        self.base = {k: ex.fresh_real("base_" + k) for k in ("kp", "ki", "kd")}
        tr.call("a_pid_fuzzy_set_kpid", self.ctx, self.base["kp"], self.base["ki"], self.base["kd"], ret="void")

    def membership(self, which, i, x):
        """Reference degree of set i (documented piecewise shape) as an expression; strict parameters."""
        sh, p = self.sets[which][i]
        if sh == "tri":
            a, b, c = p
            return z3.If(R(x) <= R(a), 0, z3.If(R(x) < R(b), (R(x) - R(a)) / (R(b) - R(a)), z3.If(R(x) < R(c), (R(c) - R(x)) / (R(c) - R(b)), 0)))
        a, b, c, d = p
        return z3.If(R(x) <= R(a), 0, z3.If(R(x) < R(b), (R(x) - R(a)) / (R(b) - R(a)), z3.If(R(x) <= R(c), 1, z3.If(R(x) < R(d), (R(d) - R(x)) / (R(d) - R(c)), 0))))
