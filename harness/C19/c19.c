/* C19: integer square root, gcd/lcm, bit reversal, byte-order accessors (E1). */
#include "verif_cbmc.h"
#include "a/a.h"
#include "a/math.h"

typedef unsigned __int128 u128;

/* ---- isqrt: floor property on a parameterised range [LO, HI] (inclusive) ---- */
#ifndef SQ_LO
#define SQ_LO 0
#define SQ_HI 0xFFFFF
#endif
void h_sqrt32_range(void)
{
    IN(a_u32, x);
    ASSUME(x >= (a_u32)(SQ_LO) && x <= (a_u32)(SQ_HI));
    a_u64 r = a_u32_sqrt(x);
    REACHED();
    CHECK(r * r <= x, "sqrt32.not-above");
    CHECK((r + 1) * (r + 1) > x, "sqrt32.largest");
}
#ifndef SQ64_LO
#define SQ64_LO 0
#define SQ64_HI 0xFFFFF
#endif
void h_sqrt64_range(void)
{
    IN(a_u64, x);
    ASSUME(x >= (a_u64)(SQ64_LO) && x <= (a_u64)(SQ64_HI));
    u128 r = a_u64_sqrt(x);
    REACHED();
    CHECK(r * r <= x, "sqrt64.not-above");
    CHECK((r + 1) * (r + 1) > x, "sqrt64.largest");
}

/* ---- gcd / lcm (one clause per harness: each unrolled Euclid loop costs one divider per step) ---- */
#ifndef GCD_BITS
#define GCD_BITS 8
#endif
#define GCD_HARNESSES(W, T, ONE)                                                                         \
    void h_gcd##W##_divides(void)                                                                        \
    {                                                                                                    \
        IN(T, a); IN(T, b);                                                                              \
        ASSUME(a < (ONE << GCD_BITS) && b < (ONE << GCD_BITS));                                          \
        T g = a_u##W##_gcd(a, b);                                                                        \
        REACHED();                                                                                       \
        CHECK((g == 0) == (a == 0 && b == 0), "gcd" #W ".zero-iff-both-zero");                           \
        if (g) { CHECK(a % g == 0 && b % g == 0, "gcd" #W ".divides"); }                                 \
    }                                                                                                    \
    void h_gcd##W##_greatest(void)                                                                       \
    {                                                                                                    \
        IN(T, a); IN(T, b); IN(T, d);                                                                    \
        ASSUME(a < (ONE << GCD_BITS) && b < (ONE << GCD_BITS) && (a | b) != 0);                          \
        ASSUME(d != 0 && d < (ONE << GCD_BITS) && a % d == 0 && b % d == 0);                             \
        T g = a_u##W##_gcd(a, b);                                                                        \
        REACHED();                                                                                       \
        CHECK(d <= g, "gcd" #W ".greatest");                                                             \
    }                                                                                                    \
    void h_lcm##W(void)                                                                                  \
    {                                                                                                    \
        IN(T, a); IN(T, b);                                                                              \
        ASSUME(a < (ONE << LCM_BITS) && b < (ONE << LCM_BITS));                                          \
        T g = a_u##W##_gcd(a, b);                                                                        \
        T l = a_u##W##_lcm(a, b);                                                                        \
        REACHED();                                                                                       \
        CHECK(l * g == a * b, "lcm" #W ".product");                                                      \
    }
#ifndef LCM_BITS
#define LCM_BITS 6
#endif
GCD_HARNESSES(32, a_u32, 1u)
GCD_HARNESSES(64, a_u64, 1ull)

/* lcm against the *contract* of gcd (assume-guarantee): calls to a_uNN_gcd inside a_uNN_lcm are
   redirected (goto-instrument --replace-calls) to a stub returning any g with the gcd post-condition
   proved above; then lcm * g == a * b whenever the product is below 2^LCMP_BITS. */
#ifndef LCMP_BITS
#define LCMP_BITS 12
#endif
a_u32 stub_g32; a_u64 stub_g64;
a_u32 stub_gcd32(a_u32 a, a_u32 b)
{
    IN(a_u32, g);
    ASSUME((g == 0) == (a == 0 && b == 0));
    if (g) { ASSUME(a % g == 0 && b % g == 0); }
    stub_g32 = g;
    return g;
}
a_u64 stub_gcd64(a_u64 a, a_u64 b)
{
    IN(a_u64, g);
    ASSUME((g == 0) == (a == 0 && b == 0));
    if (g) { ASSUME(a % g == 0 && b % g == 0); }
    stub_g64 = g;
    return g;
}
void h_lcm32_contract(void)
{
    IN(a_u32, a); IN(a_u32, b);
    ASSUME((a_u64)a * b < (1ull << LCMP_BITS));
    a_u32 l = a_u32_lcm(a, b);
#ifdef NATIVE
    stub_g32 = a_u32_gcd(a, b);
#endif
    REACHED();
    CHECK((a_u64)l * stub_g32 == (a_u64)a * b, "lcm32.product-contract");
}
void h_lcm64_contract(void)
{
    IN(a_u64, a); IN(a_u64, b);
    ASSUME((u128)a * b < ((u128)1 << LCMP_BITS));
    a_u64 l = a_u64_lcm(a, b);
#ifdef NATIVE
    stub_g64 = a_u64_gcd(a, b);
#endif
    REACHED();
    CHECK((u128)l * stub_g64 == (u128)a * b, "lcm64.product-contract");
}
/* high bits: operands with GCD_BITS significant bits shifted to an arbitrary position of the word
   (gcd / lcm commute with a common power-of-two factor) */
#ifndef GCD_SHIFT
#define GCD_SHIFT 32
#endif
#ifndef GCD_BITS32
#define GCD_BITS32 (GCD_BITS < 32 - GCD_SHIFT / 2 ? GCD_BITS : 32 - GCD_SHIFT / 2)
#endif
void h_gcd64_shifted(void)
{
    IN(a_u64, a); IN(a_u64, b);
    ASSUME(a < (1ull << GCD_BITS) && b < (1ull << GCD_BITS));
    a_u64 g = a_u64_gcd(a, b);
    REACHED();
    CHECK(a_u64_gcd(a << GCD_SHIFT, b << GCD_SHIFT) == g << GCD_SHIFT, "gcd64.common-power-of-two-factor");
}
void h_gcd32_shifted(void)
{
    IN(a_u32, a); IN(a_u32, b);
    ASSUME(a < (1u << GCD_BITS32) && b < (1u << GCD_BITS32));
    a_u32 g = a_u32_gcd(a, b);
    REACHED();
    CHECK(a_u32_gcd(a << (GCD_SHIFT / 2), b << (GCD_SHIFT / 2)) == g << (GCD_SHIFT / 2), "gcd32.common-power-of-two-factor");
}
/* full-width one-step facts */
void h_gcd_edges(void)
{
    IN(a_u32, a); IN(a_u64, c);
    REACHED();
    CHECK(a_u32_gcd(a, 0) == a, "gcd32.a-0");
    CHECK(a_u32_gcd(0, a) == a, "gcd32.0-b");
    CHECK(a_u32_gcd(a, a) == a, "gcd32.a-a");
    CHECK(a_u32_gcd(a, 1) == 1, "gcd32.a-1");
    CHECK(a_u32_lcm(0, a) == 0 && a_u32_lcm(a, 0) == 0, "lcm32.zero");
    CHECK(a_u32_lcm(a, 1) == a && a_u32_lcm(1, a) == a, "lcm32.one");
    CHECK(a_u32_lcm(a, a) == a, "lcm32.a-a");
    CHECK(a_u64_gcd(c, 0) == c, "gcd64.a-0");
    CHECK(a_u64_gcd(0, c) == c, "gcd64.0-b");
    CHECK(a_u64_gcd(c, c) == c, "gcd64.a-a");
    CHECK(a_u64_gcd(c, 1) == 1, "gcd64.a-1");
    CHECK(a_u64_lcm(0, c) == 0 && a_u64_lcm(c, 0) == 0, "lcm64.zero");
    CHECK(a_u64_lcm(c, 1) == c && a_u64_lcm(1, c) == c, "lcm64.one");
    CHECK(a_u64_lcm(c, c) == c, "lcm64.a-a");
}
/* lcm when the product is representable: multiples a = g*p, b = g*q with small coprime cofactors,
   g full width subject to representability (symbolic * small-constant range keeps SAT cheap) */
void h_lcm_wide(void)
{
    IN(a_u32, g); IN(a_u8, p); IN(a_u8, q);
    ASSUME(p >= 1 && q >= 1 && p <= 15 && q <= 15);
    ASSUME(a_u32_gcd(p, q) == 1);
    ASSUME((a_u64)g * p * q <= 0xFFFFFFFFull);
    a_u32 a = g * p, b = g * q;
    REACHED();
    CHECK(a_u32_gcd(a, b) == g, "gcd32.scaled");
    CHECK(a_u32_lcm(a, b) == g * p * q, "lcm32.scaled");
}

/* ---- bit reversal (full width) ---- */
void h_rev(void)
{
    IN(a_u8, x8); IN(a_u16, x16); IN(a_u32, x32); IN(a_u64, x64); IN(a_u8, i);
    a_u8 r8 = a_u8_rev(x8); a_u16 r16 = a_u16_rev(x16); a_u32 r32 = a_u32_rev(x32); a_u64 r64 = a_u64_rev(x64);
    REACHED();
    CHECK(a_u8_rev(r8) == x8, "rev8.involution");
    CHECK(a_u16_rev(r16) == x16, "rev16.involution");
    CHECK(a_u32_rev(r32) == x32, "rev32.involution");
    CHECK(a_u64_rev(r64) == x64, "rev64.involution");
    if (i < 8) { CHECK(((r8 >> (7 - i)) & 1) == ((x8 >> i) & 1), "rev8.bit-map"); }
    if (i < 16) { CHECK(((r16 >> (15 - i)) & 1) == ((x16 >> i) & 1), "rev16.bit-map"); }
    if (i < 32) { CHECK(((r32 >> (31 - i)) & 1) == ((x32 >> i) & 1), "rev32.bit-map"); }
    if (i < 64) { CHECK(((r64 >> (63 - i)) & 1) == ((x64 >> i) & 1), "rev64.bit-map"); }
}

/* ---- byte-order accessors (full width) ---- */
void h_endian(void)
{
    IN(a_u16, x16); IN(a_u32, x32); IN(a_u64, x64);
    IN_ARR(a_u8, m, 8);
    a_u8 b[8];
    unsigned k;
    REACHED();
    a_u16_setl(b, x16);
    CHECK(b[0] == (a_u8)x16 && b[1] == (a_u8)(x16 >> 8), "u16.setl-layout");
    CHECK(a_u16_getl(b) == x16, "u16.getl-setl");
    a_u16_setb(b, x16);
    CHECK(b[1] == (a_u8)x16 && b[0] == (a_u8)(x16 >> 8), "u16.setb-layout");
    CHECK(a_u16_getb(b) == x16, "u16.getb-setb");
    a_u32_setl(b, x32);
    for (k = 0; k < 4; ++k) { CHECK(b[k] == (a_u8)(x32 >> (8 * k)), "u32.setl-layout"); }
    CHECK(a_u32_getl(b) == x32, "u32.getl-setl");
    a_u32_setb(b, x32);
    for (k = 0; k < 4; ++k) { CHECK(b[3 - k] == (a_u8)(x32 >> (8 * k)), "u32.setb-layout"); }
    CHECK(a_u32_getb(b) == x32, "u32.getb-setb");
    a_u64_setl(b, x64);
    for (k = 0; k < 8; ++k) { CHECK(b[k] == (a_u8)(x64 >> (8 * k)), "u64.setl-layout"); }
    CHECK(a_u64_getl(b) == x64, "u64.getl-setl");
    a_u64_setb(b, x64);
    for (k = 0; k < 8; ++k) { CHECK(b[7 - k] == (a_u8)(x64 >> (8 * k)), "u64.setb-layout"); }
    CHECK(a_u64_getb(b) == x64, "u64.getb-setb");
    /* arbitrary memory image: get is the named positional sum, and set(get(m)) restores m */
    {
        a_u64 l = 0, g = 0; a_u8 c[8];
        for (k = 0; k < 8; ++k) { l |= (a_u64)m[k] << (8 * k); g |= (a_u64)m[k] << (8 * (7 - k)); }
        CHECK(a_u64_getl(m) == l, "u64.getl-image");
        CHECK(a_u64_getb(m) == g, "u64.getb-image");
        CHECK(a_u32_getl(m) == (a_u32)l, "u32.getl-image");
        CHECK(a_u32_getb(m) == (a_u32)(g >> 32), "u32.getb-image");
        CHECK(a_u16_getl(m) == (a_u16)l, "u16.getl-image");
        CHECK(a_u16_getb(m) == (a_u16)(g >> 48), "u16.getb-image");
        a_u64_setl(c, a_u64_getl(m)); CHECK(!memcmp(c, m, 8), "u64.setl-getl");
        a_u64_setb(c, a_u64_getb(m)); CHECK(!memcmp(c, m, 8), "u64.setb-getb");
        a_u32_setl(c, a_u32_getl(m)); CHECK(!memcmp(c, m, 4), "u32.setl-getl");
        a_u32_setb(c, a_u32_getb(m)); CHECK(!memcmp(c, m, 4), "u32.setb-getb");
        a_u16_setl(c, a_u16_getl(m)); CHECK(!memcmp(c, m, 2), "u16.setl-getl");
        a_u16_setb(c, a_u16_getb(m)); CHECK(!memcmp(c, m, 2), "u16.setb-getb");
    }
}
