/* C12 (E1 part): one step of the plain and single-neuron controllers from an ARBITRARY state, bit-precise. */
#include "verif_cbmc.h"
#include <math.h>
#include "a/a.h"
#include "a/pid.h"
#include "a/pid_neuro.h"

#if A_SIZE_REAL + 0 == 4
#define IN_R(name) IN_F32(name)
#define BIG 1e9f /* four-fold products stay below FLT_MAX */
#else
#define IN_R(name) IN_F64(name)
#define BIG 1e30
#endif
#define FIN(x) (!isnan(x) && !isinf(x))
#define MAG(x) (FIN(x) && (x) <= BIG && (x) >= -BIG)

#define PID_STATE(p)                                                                                             \
    IN_R(kp); IN_R(ki); IN_R(kd); IN_R(summax); IN_R(summin); IN_R(sum); IN_R(outmax); IN_R(outmin); IN_R(out);  \
    IN_R(var); IN_R(fdb0); IN_R(err0); IN_R(set); IN_R(fdb);                                                     \
    ASSUME(MAG(kp) && MAG(ki) && MAG(kd) && MAG(summax) && MAG(summin) && MAG(sum) && MAG(outmax) && MAG(outmin)); \
    ASSUME(MAG(out) && MAG(var) && MAG(fdb0) && MAG(err0) && MAG(set) && MAG(fdb));                              \
    ASSUME(outmin <= outmax && summin <= 0 && 0 <= summax && ki >= 0);                                           \
    (p).kp = kp; (p).ki = ki; (p).kd = kd; (p).summax = summax; (p).summin = summin; (p).sum = sum;              \
    (p).outmax = outmax; (p).outmin = outmin; (p).out = out; (p).var = var; (p).fdb = fdb0; (p).err = err0

#define C_RANGE(p, r, what)                                                                                      \
    CHECK((p).outmin <= (r) && (r) <= (p).outmax, what ".output-outside-the-output-limits");                     \
    CHECK((r) == (p).out, what ".returned-value-is-not-the-stored-output")
#define C_FINITE(p, r, what)                                                                                     \
    CHECK(FIN((p).sum) && FIN((p).out) && FIN((p).var) && FIN((p).fdb) && FIN((p).err), what ".state-not-finite")
#define C_KEEP(p, r, what)                                                                                       \
    CHECK((p).kp == kp && (p).ki == ki && (p).kd == kd && (p).summax == summax && (p).summin == summin &&        \
          (p).outmax == outmax && (p).outmin == outmin, what ".gains-or-limits-modified");                       \
    CHECK((p).fdb == fdb, what ".cached-feedback")

/* one clause per harness function: combining them multiplies the SAT effort (290 s vs 2-12 s each) */
#define PID_HARNESS(NAME, CALL, CLAUSE, WHAT)           \
    void h_##NAME(void)                                 \
    {                                                   \
        a_pid p; PID_STATE(p);                          \
        a_real r = CALL(&p, set, fdb);                  \
        REACHED();                                      \
        CLAUSE(p, r, WHAT);                             \
    }
PID_HARNESS(run_range, a_pid_run, C_RANGE, "pid_run")
PID_HARNESS(run_finite, a_pid_run, C_FINITE, "pid_run")
PID_HARNESS(run_keep, a_pid_run, C_KEEP, "pid_run")
PID_HARNESS(pos_range, a_pid_pos, C_RANGE, "pid_pos")
PID_HARNESS(pos_finite, a_pid_pos, C_FINITE, "pid_pos")
PID_HARNESS(pos_keep, a_pid_pos, C_KEEP, "pid_pos")
PID_HARNESS(inc_range, a_pid_inc, C_RANGE, "pid_inc")
PID_HARNESS(inc_finite, a_pid_inc, C_FINITE, "pid_inc")
PID_HARNESS(inc_keep, a_pid_inc, C_KEEP, "pid_inc")

void h_run_value(void)
{
    a_pid p; PID_STATE(p);
    a_real r = a_pid_run(&p, set, fdb);
    REACHED();
    CHECK(r == (set < outmin ? outmin : set > outmax ? outmax : set), "pid_run.output-is-not-the-saturated-set-point");
    CHECK(p.sum == sum, "pid_run.integrator-modified");
}
void h_pos_clamp(void)
{
    a_pid p; PID_STATE(p);
    a_pid_pos(&p, set, fdb);
    REACHED();
    if (sum >= summax) { CHECK(p.sum <= sum, "pid_pos.integrator-moves-further-beyond-its-upper-clamp"); }
    if (sum <= summin) { CHECK(p.sum >= sum, "pid_pos.integrator-moves-further-beyond-its-lower-clamp"); }
}
void h_pos_increment(void)
{
    a_pid p; PID_STATE(p);
    a_pid_pos(&p, set, fdb);
    a_real err = set - fdb;
    REACHED();
    if (ki == 0 || err == 0) { CHECK(p.sum == sum, "pid_pos.integrator-moves-without-an-increment"); }
    if (err > 0) { CHECK(p.sum >= sum, "pid_pos.integrator-moves-against-the-error"); }
    if (err < 0) { CHECK(p.sum <= sum, "pid_pos.integrator-moves-against-the-error"); }
    CHECK(p.var == fdb0 - fdb, "pid_pos.cached-feedback-variation");
}
void h_inc_keepsum(void)
{
    a_pid p; PID_STATE(p);
    a_pid_inc(&p, set, fdb);
    REACHED();
    CHECK(p.sum == sum, "pid_inc.integrator-modified");
    CHECK(p.var == fdb0 - fdb, "pid_inc.cached-feedback-variation");
}
void h_pid_zero(void)
{
    a_pid p; PID_STATE(p);
    (void)set; (void)fdb;
    a_pid_zero(&p);
    REACHED();
    CHECK(p.sum == 0 && p.out == 0 && p.var == 0 && p.fdb == 0 && p.err == 0, "pid_zero.state-not-cleared");
    CHECK(p.kp == kp && p.ki == ki && p.kd == kd && p.summax == summax && p.summin == summin && p.outmax == outmax && p.outmin == outmin,
          "pid_zero.gains-or-limits-modified");
}

#define NEURO_STATE(n)                                               \
    PID_STATE((n).pid);                                              \
    IN_R(k); IN_R(wp); IN_R(wi); IN_R(wd); IN_R(ec);                 \
    ASSUME(MAG(k) && MAG(wp) && MAG(wi) && MAG(wd) && MAG(ec));      \
    (n).k = k; (n).wp = wp; (n).wi = wi; (n).wd = wd; (n).ec = ec
#define NEURO_HARNESS(NAME, CALL, CLAUSE, WHAT)         \
    void h_##NAME(void)                                 \
    {                                                   \
        a_pid_neuro n; NEURO_STATE(n);                  \
        a_real r = CALL(&n, set, fdb);                  \
        REACHED();                                      \
        CLAUSE(n.pid, r, WHAT);                         \
    }
NEURO_HARNESS(neuro_run_range, a_pid_neuro_run, C_RANGE, "pid_neuro_run")
NEURO_HARNESS(neuro_inc_range, a_pid_neuro_inc, C_RANGE, "pid_neuro_inc")
NEURO_HARNESS(neuro_inc_finite, a_pid_neuro_inc, C_FINITE, "pid_neuro_inc")
NEURO_HARNESS(neuro_inc_keep, a_pid_neuro_inc, C_KEEP, "pid_neuro_inc")
void h_neuro_weights(void)
{
    a_pid_neuro n; NEURO_STATE(n);
    a_pid_neuro_inc(&n, set, fdb);
    REACHED();
    CHECK(FIN(n.wp) && FIN(n.wi) && FIN(n.wd) && FIN(n.ec) && n.k == k, "pid_neuro_inc.weights-not-finite");
}
void h_neuro_run_value(void)
{
    a_pid_neuro n; NEURO_STATE(n);
    a_real r = a_pid_neuro_run(&n, set, fdb);
    REACHED();
    CHECK(r == (set < outmin ? outmin : set > outmax ? outmax : set), "pid_neuro_run.output-is-not-the-saturated-set-point");
    CHECK(n.wp == wp && n.wi == wi && n.wd == wd, "pid_neuro_run.weights-modified");
}
void h_neuro_zero(void)
{
    a_pid_neuro n; NEURO_STATE(n);
    (void)set; (void)fdb;
    a_pid_neuro_zero(&n);
    REACHED();
    CHECK(n.pid.sum == 0 && n.pid.out == 0 && n.pid.var == 0 && n.pid.fdb == 0 && n.pid.err == 0 && n.ec == 0, "pid_neuro_zero.state-not-cleared");
}
