/* Shared by all E1 (CBMC) harnesses.  Two build modes:
 *   default : goto-cc / cbmc; inputs are nondeterministic, CHECK is an assertion.
 *   NATIVE  : gcc; inputs come from argv ("name=value", "name[i]=value"), CHECK aborts.
 *   WITNESS : vacuity twin - REACHED() becomes assert(0) and must come back FAILED.
 */
#ifndef VERIF_CBMC_H
#define VERIF_CBMC_H
#include <stdint.h>
#include <stddef.h>
#include <string.h>

#ifdef NATIVE
#include <stdio.h>
#include <stdlib.h>
static int vin_argc; static char **vin_argv;
static void vin_init(int c, char **v) { vin_argc = c; vin_argv = v; }
static unsigned long long vin(char const *name)
{
    size_t n = strlen(name);
    for (int i = 1; i < vin_argc; ++i)
        if (!strncmp(vin_argv[i], name, n) && vin_argv[i][n] == '=')
            return strtoull(vin_argv[i] + n + 1, 0, 0);
    return 0;
}
static unsigned long long vin_i(char const *name, unsigned i)
{
    char b[128]; snprintf(b, sizeof b, "%s[%u]", name, i); return vin(b);
}
#define IN(T, name) T name = (T)vin(#name)
#define IN_ARR(T, name, n) T name[n]; for (unsigned name##_i = 0; name##_i < (n); ++name##_i) name[name##_i] = (T)vin_i(#name, name##_i)
#define IN_F64(name) double name; { unsigned long long b_ = vin(#name); memcpy(&name, &b_, 8); }
#define IN_F32(name) float name; { unsigned b_ = (unsigned)vin(#name); memcpy(&name, &b_, 4); }
#define ASSUME(c) do { if (!(c)) { printf("ASSUME-FALSE %s\n", #c); exit(0); } } while (0)
#define CHECK(c, msg) do { if (!(c)) { printf("REPLAY-FAIL %s\n", msg); exit(1); } } while (0)
#define REACHED() ((void)0)
/* an object CBMC leaves nondeterministic: the native replay fills it with a pattern no correct run produces */
#define POISON(obj) memset(&(obj), 0xA5, sizeof(obj))
#else
#define NDX_(T) nondet_##T
#define IN(T, name) T NDX_(T)(void); T name = NDX_(T)()
#define IN_ARR(T, name, n) T name[n]; { T NDX_(T)(void); for (unsigned name##_i = 0; name##_i < (n); ++name##_i) name[name##_i] = NDX_(T)(); }
#define IN_F64(name) double nondet_double(void); double name = nondet_double()
#define IN_F32(name) float nondet_float(void); float name = nondet_float()
#define ASSUME(c) __CPROVER_assume(c)
#define CHECK(c, msg) __CPROVER_assert((c), msg)
#define POISON(obj) ((void)0)
#ifdef WITNESS
#define REACHED() __CPROVER_assert(0, "witness-reached")
#else
#define REACHED() ((void)0)
#endif
#endif
#endif
