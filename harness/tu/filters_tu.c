/* Wrapper TU for C16: exports the header-inline RC filter functions. */
#include "a/lpf.h"
#include "a/hpf.h"
a_real w_lpf_gen(a_real fc, a_real ts) { return a_lpf_gen(fc, ts); }
void w_lpf_init(a_lpf *c, a_real alpha) { a_lpf_init(c, alpha); }
a_real w_lpf_iter(a_lpf *c, a_real x) { return a_lpf_iter(c, x); }
void w_lpf_zero(a_lpf *c) { a_lpf_zero(c); }
a_real w_hpf_gen(a_real fc, a_real ts) { return a_hpf_gen(fc, ts); }
void w_hpf_init(a_hpf *c, a_real alpha) { a_hpf_init(c, alpha); }
a_real w_hpf_iter(a_hpf *c, a_real x) { return a_hpf_iter(c, x); }
void w_hpf_zero(a_hpf *c) { a_hpf_zero(c); }
