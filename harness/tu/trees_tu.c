/* Wrapper TU for C03: instantiates the header's iteration protocols (the macros themselves) so that
   the protocol executed by llsym is the one the header defines. Only includes real headers. */
#include "a/avl.h"
#include "a/rbt.h"

extern void w_release(void *node); /* llsym: marks the node object dead; native replay: free() */

#define ITER(T, NAME, MACRO)                                   \
    a_size w_##T##_##NAME(a_##T *root, a_##T##_node **out)     \
    {                                                          \
        a_size n = 0;                                          \
        MACRO(cur, root) { out[n++] = cur; }                   \
        return n;                                              \
    }
ITER(avl, foreach, a_avl_foreach)
ITER(avl, foreach_reverse, a_avl_foreach_reverse)
ITER(avl, pre_foreach, a_avl_pre_foreach)
ITER(avl, pre_foreach_reverse, a_avl_pre_foreach_reverse)
ITER(avl, post_foreach, a_avl_post_foreach)
ITER(avl, post_foreach_reverse, a_avl_post_foreach_reverse)
ITER(rbt, foreach, a_rbt_foreach)
ITER(rbt, foreach_reverse, a_rbt_foreach_reverse)
ITER(rbt, pre_foreach, a_rbt_pre_foreach)
ITER(rbt, pre_foreach_reverse, a_rbt_pre_foreach_reverse)
ITER(rbt, post_foreach, a_rbt_post_foreach)
ITER(rbt, post_foreach_reverse, a_rbt_post_foreach_reverse)

/* destructive tear-down, interrupted after `stop` elements; every element is released as soon as it is
   handed out; *pnext receives the protocol's saved cursor so that the tear-down can be resumed */
#define TEAR(T)                                                                                  \
    a_size w_##T##_fortear(a_##T *root, a_##T##_node **out, a_size stop, a_##T##_node **pnext)   \
    {                                                                                            \
        a_size n = 0;                                                                            \
        if (stop == 0) { *pnext = A_NULL; return 0; }                                            \
        a_##T##_fortear(cur, next, root)                                                         \
        {                                                                                        \
            out[n++] = cur;                                                                      \
            w_release(cur);                                                                      \
            if (n == stop) { *pnext = next; return n; }                                          \
        }                                                                                        \
        *pnext = A_NULL;                                                                         \
        return n;                                                                                \
    }                                                                                            \
    a_size w_##T##_tear_resume(a_##T *root, a_##T##_node **out, a_##T##_node **pnext)            \
    {                                                                                            \
        a_size n = 0;                                                                            \
        a_##T##_node *next = *pnext, *cur;                                                       \
        for (cur = a_##T##_tear(root, &next); cur; cur = a_##T##_tear(root, &next))              \
        {                                                                                        \
            out[n++] = cur;                                                                      \
            w_release(cur);                                                                      \
        }                                                                                        \
        return n;                                                                                \
    }
TEAR(avl)
TEAR(rbt)
