/* Wrapper TU for C05: exports the header-inline list / slist operations under w_ names. */
#include "a/list.h"
#include "a/slist.h"
void w_list_ctor(a_list *c) { a_list_ctor(c); }
void w_list_add_(a_list *h1, a_list *t1, a_list *h2, a_list *t2) { a_list_add_(h1, t1, h2, t2); }
void w_list_add_node(a_list *h, a_list *t, a_list *n) { a_list_add_node(h, t, n); }
void w_list_add_next(a_list *c, a_list *n) { a_list_add_next(c, n); }
void w_list_add_prev(a_list *c, a_list *n) { a_list_add_prev(c, n); }
void w_list_del_(a_list const *h, a_list const *t) { a_list_del_(h, t); }
void w_list_del_node(a_list const *n) { a_list_del_node(n); }
void w_list_del_next(a_list const *n) { a_list_del_next(n); }
void w_list_del_prev(a_list const *n) { a_list_del_prev(n); }
void w_list_set_(a_list const *h1, a_list const *t1, a_list *h2, a_list *t2) { a_list_set_(h1, t1, h2, t2); }
void w_list_set_node(a_list const *c, a_list *r) { a_list_set_node(c, r); }
void w_list_mov_next(a_list *c, a_list const *r) { a_list_mov_next(c, r); }
void w_list_mov_prev(a_list *c, a_list const *r) { a_list_mov_prev(c, r); }
void w_list_rot_next(a_list *c) { a_list_rot_next(c); }
void w_list_rot_prev(a_list *c) { a_list_rot_prev(c); }
void w_list_swap_(a_list *h1, a_list *t1, a_list *h2, a_list *t2) { a_list_swap_(h1, t1, h2, t2); }
void w_list_swap_node(a_list *l, a_list *r) { a_list_swap_node(l, r); }
void w_slist_ctor(a_slist *c) { a_slist_ctor(c); }
void w_slist_add(a_slist *c, a_slist_node *p, a_slist_node *n) { a_slist_add(c, p, n); }
void w_slist_add_head(a_slist *c, a_slist_node *n) { a_slist_add_head(c, n); }
void w_slist_add_tail(a_slist *c, a_slist_node *n) { a_slist_add_tail(c, n); }
void w_slist_del(a_slist *c, a_slist_node *p) { a_slist_del(c, p); }
void w_slist_del_head(a_slist *c) { a_slist_del_head(c); }
void w_slist_mov(a_slist *c, a_slist *to, a_slist_node *at) { a_slist_mov(c, to, at); }
void w_slist_rot(a_slist *c) { a_slist_rot(c); }
