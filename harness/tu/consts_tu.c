/* Wrapper TU for C10: exposes the mathematical constants of a/math.h as initialised globals so that their
   literal values can be read from the compiler's IR. */
#include "a/math.h"
a_real const k_LOG2E = A_REAL_LOG2E, k_LOG10E = A_REAL_LOG10E, k_LN2 = A_REAL_LN2, k_LN1_2 = A_REAL_LN1_2, k_LN10 = A_REAL_LN10, k_LN1_10 = A_REAL_LN1_10;
a_real const k_PI = A_REAL_PI, k_TAU = A_REAL_TAU, k_PI_2 = A_REAL_PI_2, k_PI_4 = A_REAL_PI_4, k_1_PI = A_REAL_1_PI, k_2_PI = A_REAL_2_PI, k_1_TAU = A_REAL_1_TAU;
a_real const k_SQRT2 = A_REAL_SQRT2, k_SQRT1_2 = A_REAL_SQRT1_2, k_SQRT3 = A_REAL_SQRT3, k_SQRT1_3 = A_REAL_SQRT1_3, k_RAD2DEG = A_REAL_RAD2DEG, k_DEG2RAD = A_REAL_DEG2RAD;
