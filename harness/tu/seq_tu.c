/* Wrapper TU for C04/C05/C06: exports the header-inline accessors so llsym can call them by name. */
#include "a/vec.h"
#include "a/buf.h"
#include "a/que.h"
#include "a/str.h"
void *w_vec_at(a_vec const *c, a_size i) { return a_vec_at(c, i); }
void *w_vec_of(a_vec const *c, a_diff i) { return a_vec_of(c, i); }
void *w_vec_top(a_vec const *c) { return a_vec_top(c); }
void *w_vec_end(a_vec const *c) { return a_vec_end(c); }
void *w_buf_at(void const *c, a_size i) { return a_buf_at(c, i); }
void *w_buf_of(void const *c, a_diff i) { return a_buf_of(c, i); }
void *w_buf_top(void const *c) { return a_buf_top(c); }
void *w_buf_end(void const *c) { return a_buf_end(c); }
void *w_que_fore(a_que const *c) { return a_que_fore(c); }
void *w_que_back(a_que const *c) { return a_que_back(c); }
void w_que_swap_(void *l, void *r) { a_que_swap_(l, r); }
char *w_str_at(a_str const *c, a_size i) { return a_str_at(c, i); }
char *w_str_of(a_str const *c, a_diff i) { return a_str_of(c, i); }
int w_str_setn(a_str *c, a_size n) { return a_str_setn(c, n); }
void w_str_setn_(a_str *c, a_size n) { a_str_setn_(c, n); }
