/* Wrapper TU for C13: nothing to export - src/fuzzy.c defines LIBA_FUZZY_C and emits the inline operators. */
#include "a/fuzzy.h"
#include "a/mf.h"
