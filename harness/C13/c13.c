/* C13 (E1 part): linear membership functions and fuzzy operators, bit-precise over arbitrary finite doubles. */
#include "verif_cbmc.h"
#include <math.h>
#include "a/a.h"
#include "a/mf.h"
#include "a/fuzzy.h"

#define FIN(x) (!isnan(x) && (x) <= 1e300 && (x) >= -1e300) /* bound: differences of two values cannot overflow */
#define UNIT(y) ((y) >= 0 && (y) <= 1)

/* ---- range / NaN-freedom for every ordered parameter tuple, degenerate (zero-width) flanks included ---- */
void h_tri_range(void)
{
    IN_F64(x); IN_F64(a); IN_F64(b); IN_F64(c);
    ASSUME(FIN(x) && FIN(a) && FIN(b) && FIN(c) && a <= b && b <= c);
    a_real y = a_mf_tri(x, a, b, c);
    REACHED();
    CHECK(UNIT(y), "tri.value-outside-[0,1]-or-NaN");
}
void h_trap_range(void)
{
    IN_F64(x); IN_F64(a); IN_F64(b); IN_F64(c); IN_F64(d);
    ASSUME(FIN(x) && FIN(a) && FIN(b) && FIN(c) && FIN(d) && a <= b && b <= c && c <= d);
    a_real y = a_mf_trap(x, a, b, c, d);
    REACHED();
    CHECK(UNIT(y), "trap.value-outside-[0,1]-or-NaN");
}
void h_lins_range(void)
{
    IN_F64(x); IN_F64(a); IN_F64(b);
    ASSUME(FIN(x) && FIN(a) && FIN(b) && a <= b);
    a_real y = a_mf_lins(x, a, b);
    REACHED();
    CHECK(UNIT(y), "lins.value-outside-[0,1]-or-NaN");
}
void h_linz_range(void)
{
    IN_F64(x); IN_F64(a); IN_F64(b);
    ASSUME(FIN(x) && FIN(a) && FIN(b) && a <= b);
    a_real y = a_mf_linz(x, a, b);
    REACHED();
    CHECK(UNIT(y), "linz.value-outside-[0,1]-or-NaN");
}
/* ---- shape: core = 1, outside the support = 0 (strict flanks), monotone on each flank ---- */
void h_trap_shape(void)
{
    IN_F64(x); IN_F64(y); IN_F64(a); IN_F64(b); IN_F64(c); IN_F64(d);
    ASSUME(FIN(x) && FIN(y) && FIN(a) && FIN(b) && FIN(c) && FIN(d) && a < b && b <= c && c < d && x <= y);
    a_real fx = a_mf_trap(x, a, b, c, d), fy = a_mf_trap(y, a, b, c, d);
    REACHED();
    if (x >= b && x <= c) { CHECK(fx == 1, "trap.core-is-not-one"); }
    if (x <= a || x >= d) { CHECK(fx == 0, "trap.outside-the-support-is-not-zero"); }
    if (y <= b) { CHECK(fx <= fy, "trap.rising-flank-not-monotone"); }
    if (x >= c) { CHECK(fx >= fy, "trap.falling-flank-not-monotone"); }
}
void h_tri_shape(void)
{
    IN_F64(x); IN_F64(y); IN_F64(a); IN_F64(b); IN_F64(c);
    ASSUME(FIN(x) && FIN(y) && FIN(a) && FIN(b) && FIN(c) && a < b && b < c && x <= y);
    a_real fx = a_mf_tri(x, a, b, c), fy = a_mf_tri(y, a, b, c);
    REACHED();
    if (x == b) { CHECK(fx == 1, "tri.peak-is-not-one"); }
    if (x <= a || x >= c) { CHECK(fx == 0, "tri.outside-the-support-is-not-zero"); }
    if (y <= b) { CHECK(fx <= fy, "tri.rising-flank-not-monotone"); }
    if (x >= b) { CHECK(fx >= fy, "tri.falling-flank-not-monotone"); }
}
void h_lin_shape(void)
{
    IN_F64(x); IN_F64(y); IN_F64(a); IN_F64(b);
    ASSUME(FIN(x) && FIN(y) && FIN(a) && FIN(b) && a < b && x <= y);
    REACHED();
    CHECK(a_mf_lins(x, a, b) <= a_mf_lins(y, a, b), "lins.not-monotone-rising");
    CHECK(a_mf_linz(x, a, b) >= a_mf_linz(y, a, b), "linz.not-monotone-falling");
    if (x <= a) { CHECK(a_mf_lins(x, a, b) == 0 && a_mf_linz(x, a, b) == 1, "lin.left-of-the-ramp"); }
    if (x >= b) { CHECK(a_mf_lins(x, a, b) == 1 && a_mf_linz(x, a, b) == 0, "lin.right-of-the-ramp"); }
}
/* ---- generic dispatcher = specific function (one family per harness) ---- */
#define DISPATCH(NAME, E, CALL)                                                             \
    void h_dispatch_##NAME(void)                                                            \
    {                                                                                       \
        IN_F64(x); IN_F64(p0); IN_F64(p1); IN_F64(p2); IN_F64(p3);                          \
        a_real p[4]; p[0] = p0; p[1] = p1; p[2] = p2; p[3] = p3;                            \
        ASSUME(FIN(x) && FIN(p0) && FIN(p1) && FIN(p2) && FIN(p3));                         \
        a_real y = a_mf(E, x, p);                                                           \
        a_real z = CALL;                                                                    \
        REACHED();                                                                          \
        CHECK((isnan(y) && isnan(z)) || y == z, "mf.dispatcher-differs-from-" #NAME);       \
    }
DISPATCH(trap, A_MF_TRAP, a_mf_trap(x, p0, p1, p2, p3))
DISPATCH(tri, A_MF_TRI, a_mf_tri(x, p0, p1, p2))
DISPATCH(lins, A_MF_LINS, a_mf_lins(x, p0, p1))
DISPATCH(linz, A_MF_LINZ, a_mf_linz(x, p0, p1))
void h_dispatch_nul(void)
{
    IN_F64(x); IN_F64(p0);
    a_real p[4]; p[0] = p[1] = p[2] = p[3] = p0;
    REACHED();
    CHECK(a_mf(A_MF_NUL, x, p) == 0, "mf.dispatcher-nul-is-not-zero");
}
/* ---- fuzzy operators on [0,1]^2, one clause per harness ---- */
#define OPR(NAME, F, ISCAP)                                                                                   \
    void h_opr_##NAME##_range(void)                                                                           \
    {                                                                                                         \
        IN_F64(a); IN_F64(b);                                                                                 \
        ASSUME(UNIT(a) && UNIT(b));                                                                           \
        a_real ab = F(a, b);                                                                                  \
        REACHED();                                                                                            \
        CHECK(UNIT(ab), #NAME ".result-outside-[0,1]");                                                       \
        if (ISCAP) { CHECK(ab <= (a < b ? a : b), #NAME ".intersection-exceeds-min"); }                       \
        else { CHECK(ab >= (a > b ? a : b), #NAME ".union-below-max"); }                                      \
    }                                                                                                         \
    void h_opr_##NAME##_commutative(void)                                                                     \
    {                                                                                                         \
        IN_F64(a); IN_F64(b);                                                                                 \
        ASSUME(UNIT(a) && UNIT(b));                                                                           \
        REACHED();                                                                                            \
        CHECK(F(a, b) == F(b, a), #NAME ".not-commutative");                                                  \
    }                                                                                                         \
    void h_opr_##NAME##_monotone(void)                                                                        \
    {                                                                                                         \
        IN_F64(a); IN_F64(b); IN_F64(c);                                                                      \
        ASSUME(UNIT(a) && UNIT(b) && UNIT(c) && b <= c);                                                      \
        REACHED();                                                                                            \
        CHECK(F(a, b) <= F(a, c), #NAME ".not-monotone");                                                     \
    }                                                                                                         \
    void h_opr_##NAME##_boundary(void)                                                                        \
    {                                                                                                         \
        IN_F64(a);                                                                                            \
        ASSUME(UNIT(a));                                                                                      \
        REACHED();                                                                                            \
        if (ISCAP) { CHECK(F(a, 1.0) == a && F(a, 0.0) == 0, #NAME ".boundary-cases"); }                      \
        else { CHECK(F(a, 0.0) == a && F(a, 1.0) == 1, #NAME ".boundary-cases"); }                            \
    }
OPR(cap, a_fuzzy_cap, 1)
OPR(cap_algebra, a_fuzzy_cap_algebra, 1)
OPR(cap_bounded, a_fuzzy_cap_bounded, 1)
OPR(cup, a_fuzzy_cup, 0)
OPR(cup_algebra, a_fuzzy_cup_algebra, 0)
OPR(cup_bounded, a_fuzzy_cup_bounded, 0)
