"""C15: polynomial trajectories and polynomial evaluation — E2 (llsym, exact-real domain), DESIGN.md 4/C15."""
import os, sys
from fractions import Fraction
from vcommon import *
import e2
sys.path.insert(0, os.path.join(VERIF, "harness", "llsym"))
import core, z3
from replay import Tr
from realcheck import *

PID = "C15"
DEG = {3: 4, 5: 6, 7: 8}            # number of coefficients
NB = {3: 2, 5: 3, 7: 4}             # boundary values per end: p,v | p,v,a | p,v,a,j


def deriv(cs):
    return [mul(cs[i], i) for i in range(1, len(cs))]


def traj_harness(n):
    def h(ex):
        tr = Tr(ex, "")
        ex.path_tags = ["trajpoly%d" % n]
        ctx = tr.alloc(8 * DEG[n], "ctx")
        ts = ex.fresh_real("ts")
        ex.assume(ts > 0)
        names = ["p", "v", "a", "j"][:NB[n]]
        b0 = [ex.fresh_real(k + "0") for k in names]
        b1 = [ex.fresh_real(k + "1") for k in names]
        args = [ts]
        for x0, x1 in zip(b0, b1):
            args += [x0, x1]
        tr.call("a_trajpoly%d_gen" % n, ctx, *args, ret="void")
        cs = [ex.load(ctx + 8 * i, F64) for i in range(DEG[n])]
        evals = ["pos", "vel", "acc", "jer"][:3 if n < 7 else 4]
        # coefficient accessors = successive formal derivatives of the position polynomial
        d = cs
        for k in range(len(evals)):
            out = Arr(ex, tr, len(d), "c%d" % k, init=[Fraction(0)] * len(d))
            tr.call("a_trajpoly%d_c%d" % (n, k), ctx, out.addr, ret="void")
            got = out.get()
            ex.check(conj([req(g, e) for g, e in zip(got, d)]), "c%d:not-the-%dth-derivative-coefficients" % (k, k))
            d = deriv(d)
        # boundary conditions at 0 and at ts, evaluators at a symbolic time = Horner value of the derivative polynomial
        x = ex.fresh_real("x")
        d = cs
        for k, ev in enumerate(evals):
            f = "a_trajpoly%d_%s" % (n, ev)
            at0 = tr.call(f, ctx, Fraction(0), ret="f64")
            at1 = tr.call(f, ctx, ts, ret="f64")
            atx = tr.call(f, ctx, x, ret="f64")
            if k < NB[n]:
                ex.check(req(at0, b0[k]), "%s(0):initial-%s-not-reproduced" % (ev, names[k]))
                ex.check(req(at1, b1[k]), "%s(ts):final-%s-not-reached" % (ev, names[k]))
            ex.check(req(atx, horner(d, x)), "%s(x):not-the-derivative-of-the-position-polynomial" % ev)
            d = deriv(d)
    return h


def poly_harness(n):
    def h(ex):
        tr = Tr(ex, "")
        ex.path_tags = ["poly", "n=%d" % n]
        a = Arr(ex, tr, n, "a")
        x = ex.fresh_real("x")
        coef = list(a.v)
        y = tr.call("a_poly_eval", a.addr, n, x, ret="f64")
        ex.check(req(y, ssum([mul(coef[i], power(x, i)) for i in range(n)])), "eval:not-sum-a_i-x^i")
        yr = tr.call("a_poly_evar", a.addr, n, x, ret="f64")
        ex.check(req(yr, ssum([mul(coef[i], power(x, n - 1 - i)) for i in range(n)])), "evar:not-sum-a_i-x^(n-1-i)")
        if n:
            ex.check(req(tr.call("a_poly_eval_", a.addr, a.addr + 8 * n, x, ret="f64"), y), "eval_:differs-from-eval")
            ex.check(req(tr.call("a_poly_evar_", a.addr, a.addr + 8 * n, x, ret="f64"), yr), "evar_:differs-from-evar")
        tr.call("a_poly_swap", a.addr, n, ret="void")
        got = a.get()
        ex.check(conj([req(g, e) for g, e in zip(got, reversed(coef))]), "swap:not-the-reversed-coefficients")
        y2 = tr.call("a_poly_eval", a.addr, n, x, ret="f64")
        ex.check(req(y2, yr), "eval(swap(a)):differs-from-evar(a)")
        tr.call("a_poly_swap", a.addr, n, ret="void")
        ex.check(conj([req(g, e) for g, e in zip(a.get(), coef)]), "swap:not-an-involution")
    return h


def power(x, k):
    r = Fraction(1)
    for _ in range(k):
        r = mul(r, x)
    return r


def builder(p):
    if p[0] == "traj":
        return "trajpoly%d" % p[1], traj_harness(p[1])
    return "poly/n%d" % p[1], poly_harness(p[1])


def main():
    cfg = gen_config()
    res = Result(PID)
    T = tier()
    N = 6 if T == "quick" else 12
    inst = [("traj", 3), ("traj", 5), ("traj", 7)] + [("poly", n) for n in range(0, N + 1)]
    res.functions.update(["a_trajpoly%d_%s" % (n, f) for n in (3, 5, 7) for f in (["gen", "c0", "c1", "c2", "pos", "vel", "acc"] + (["c3", "jer"] if n == 7 else []))] +
                         ["a_poly_eval", "a_poly_eval_", "a_poly_evar", "a_poly_evar_", "a_poly_swap", "a_poly_swap_"])
    res.bounds = {"trajectories": "all real ts > 0, all real boundary data, a symbolic real query time (degrees 3, 5, 7)",
                  "polynomials": "coefficient vectors of length 0..%d, symbolic real coefficients and argument" % N,
                  "domain": "exact real arithmetic (z3 Real); double literals that are roundings of simple rationals (1/6, 1/2) denote those rationals"}
    res.outside = ["rounding: 'to within rounding error proportional to the boundary data' is decided as exact equality of the real formulas", "a_poly_xTx/a_poly_xTy (pow-based least-squares helpers, not part of the property)"]
    res.assumptions = ["floats are treated as reals in this check by design: the claim is about the mathematical formula, not about IEEE results"]
    e2.run_e2(res, cfg, ["trajpoly3.c", "trajpoly5.c", "trajpoly7.c", "poly.c", "a.c"], inst, builder, group="poly", validate_every=1, exec_attrs={"force_solver": True}, exec_opts={"solver": "nra"}, tol=1e-6,
              time_budget=300 if T == "quick" else 1500)
    e2.finish_coverage(res, must_cover=["a_trajpoly7_gen", "a_trajpoly5_gen", "a_trajpoly3_gen", "a_poly_eval_", "a_poly_evar_", "a_poly_swap_"], report_funcs=None)
    return res.finish()


if __name__ == "__main__":
    sys.exit(main())
