"""C10: complex arithmetic and functions — E2 (llsym, exact-real domain + contracts for libm), partial
(DESIGN.md 4/C10): field arithmetic and inverse pairs, constants, principal-value sign/range logic of every
fallback body (configuration with all A_HAVE_C* undefined), plumbing of the libm-bound configuration.
Accuracy 'within a small multiple of machine precision' is outside."""
import os, sys, math, itertools
from fractions import Fraction
from vcommon import *
import e2
sys.path.insert(0, os.path.join(VERIF, "harness", "llsym"))
import core, z3, build, ir
from replay import Tr
from realcheck import *

PID = "C10"
TU = os.path.join(VERIF, "harness", "tu", "consts_tu.c")
ZERO, ONE = Fraction(0), Fraction(1)
PI = Fraction(math.pi)
HALF_PI = PI / 2


def libm(ex):
    hp = R(HALF_PI)
    u = {}
    sgn = lambda x, r: z3.And((r > 0) == (x > 0), (r < 0) == (x < 0))
    u["atan"] = UF(ex, "atan", lambda x, r: z3.And(r > -hp, r < hp, sgn(x, r)), increasing=True, odd=True, concrete=math.atan)
    u["asin"] = UF(ex, "asin", lambda x, r: z3.And(r >= -hp, r <= hp, sgn(x, r)), increasing=True, odd=True, concrete=lambda v: math.asin(max(-1.0, min(1.0, v))))
    u["acos"] = UF(ex, "acos", lambda x, r: z3.And(r >= 0, r <= R(PI), (r < hp) == (x > 0), (r > hp) == (x < 0)), concrete=lambda v: math.acos(max(-1.0, min(1.0, v))))
    u["log"] = UF(ex, "log", lambda x, r: z3.And((r > 0) == (x > 1), (r == 0) == (x == 1)), increasing=True, concrete=lambda v: math.log(v) if v > 0 else float("nan"))
    u["log1p"] = UF(ex, "log1p", lambda x, r: sgn(x, r), increasing=True, concrete=lambda v: math.log1p(v) if v > -1 else float("nan"))
    u["exp"] = UF(ex, "exp", lambda x, r: z3.And(r > 0, (r > 1) == (x > 0)), increasing=True, concrete=math.exp)
    u["sin"] = UF(ex, "sin", lambda x, r: z3.And(r >= -1, r <= 1), odd=True, concrete=math.sin)
    u["cos"] = UF(ex, "cos", lambda x, r: z3.And(r >= -1, r <= 1), even=True, concrete=math.cos)
    u["sinh"] = UF(ex, "sinh", lambda x, r: sgn(x, r), increasing=True, odd=True, concrete=math.sinh)
    u["cosh"] = UF(ex, "cosh", lambda x, r: r >= 1, even=True, concrete=math.cosh)
    u["tanh"] = UF(ex, "tanh", lambda x, r: z3.And(r > -1, r < 1, sgn(x, r)), increasing=True, odd=True, concrete=math.tanh)
    u["acosh"] = UF(ex, "acosh", lambda x, r: z3.And(r >= 0, (r == 0) == (x == 1)), increasing=True, concrete=lambda v: math.acosh(max(1.0, v)))
    u["asinh"] = UF(ex, "asinh", lambda x, r: sgn(x, r), increasing=True, odd=True, concrete=math.asinh)
    u["atanh"] = UF(ex, "atanh", lambda x, r: sgn(x, r), increasing=True, odd=True, concrete=lambda v: math.atanh(max(-0.999999, min(0.999999, v))))

    def h_hypot(ex, x, y):
        if ex.concrete is not None:
            return Fraction(math.hypot(float(x), float(y)))
        r = ex.fresh_real("hypot")
        ex.add(z3.And(r >= 0, r * r == R(x) * R(x) + R(y) * R(y)))
        # redundant linear consequences (help nlsat): r >= |x|, r >= |y|, r <= |x| + |y|
        ex.add(z3.And(r >= R(x), r >= -R(x), r >= R(y), r >= -R(y), r <= rabs(x) + rabs(y)))
        return r
    ex.hooks["hypot"] = h_hypot

    def h_pow(ex, x, y):
        if isinstance(y, Fraction) and y.denominator == 1 and 0 <= y <= 8:
            r = ONE
            for _ in range(int(y)):
                r = mul(r, x)
            return r
        if ex.concrete is not None:
            return Fraction(math.pow(float(x), float(y)))
        raise core.Unsupported("pow with a symbolic exponent")
    ex.hooks["pow"] = h_pow

    def h_atan2(ex, y, x):
        if ex.concrete is not None:
            return Fraction(math.atan2(float(y), float(x)))
        r = ex.fresh_real("atan2")
        X, Y = R(x), R(y)
        ex.add(z3.And(r > -R(PI), r <= R(PI), z3.Implies(Y > 0, r > 0), z3.Implies(Y < 0, r < 0), z3.Implies(z3.And(Y == 0, X > 0), r == 0),
                      z3.Implies(z3.And(Y == 0, X < 0), r == R(PI)), z3.Implies(X > 0, z3.And(r > -hp, r < hp)), z3.Implies(z3.And(X < 0, Y != 0), z3.Or(r > hp, r < -hp)),
                      z3.Implies(z3.And(X == 0, Y > 0), r == hp), z3.Implies(z3.And(X == 0, Y < 0), r == -hp)))
        return r
    ex.hooks["atan2"] = h_atan2
    return u


class Z:
    """A complex number in harness memory (a_complex = two a_real)."""

    def __init__(self, ex, tr, name, re=None, im=None):
        self.ex, self.tr = ex, tr
        self.re = ex.fresh_real(name + "_re") if re is None else re
        self.im = ex.fresh_real(name + "_im") if im is None else im
        self.addr = tr.alloc(16, name)
        tr.store(self.addr, self.re, 8, isfloat=True)
        tr.store(self.addr + 8, self.im, 8, isfloat=True)

    def get(self):
        return self.ex.load(self.addr, F64), self.ex.load(self.addr + 8, F64)


def ceq(got, exp):
    return conj([req(got[0], exp[0]), req(got[1], exp[1])])


def cmul(a, b):
    return sub(mul(a[0], b[0]), mul(a[1], b[1])), add(mul(a[0], b[1]), mul(a[1], b[0]))


def arith_harness(clause):
    def h(ex):
        tr = Tr(ex, "")
        set_mode(ex)
        libm(ex)
        ex.path_tags = ["arith", clause]
        z, w = Z(ex, tr, "z"), Z(ex, tr, "w")
        o = Z(ex, tr, "o")
        s = ex.fresh_real("s")
        zz, ww = (z.re, z.im), (w.re, w.im)
        call = lambda f, *a: tr.call("a_complex_" + f, *a, ret="void")
        if clause == "ring":
            call("add", o.addr, z.re, z.im, w.re, w.im)
            ex.check(ceq(o.get(), (add(z.re, w.re), add(z.im, w.im))), "add:not-componentwise")
            call("sub", o.addr, z.re, z.im, w.re, w.im)
            ex.check(ceq(o.get(), (sub(z.re, w.re), sub(z.im, w.im))), "sub:not-componentwise")
            call("mul", o.addr, z.re, z.im, w.re, w.im)
            ex.check(ceq(o.get(), cmul(zz, ww)), "mul:not-the-complex-product")
            call("conj", o.addr, z.re, z.im)
            ex.check(ceq(o.get(), (z.re, sub(ZERO, z.im))), "conj")
            call("neg", o.addr, z.re, z.im)
            ex.check(ceq(o.get(), (sub(ZERO, z.re), sub(ZERO, z.im))), "neg")
            for f, exp in (("add_real", (add(z.re, s), z.im)), ("add_imag", (z.re, add(z.im, s))), ("sub_real", (sub(z.re, s), z.im)), ("sub_imag", (z.re, sub(z.im, s))),
                           ("mul_real", (mul(z.re, s), mul(z.im, s))), ("mul_imag", cmul(zz, (ZERO, s)))):
                call(f, o.addr, z.re, z.im, s)
                ex.check(ceq(o.get(), exp), f + ":wrong-value")
                t = Z(ex, tr, "t", z.re, z.im)
                call(f + "_", t.addr, s)
                ex.check(ceq(t.get(), exp), f + "_:in-place-form-differs")
            for f, exp in (("add_", (add(z.re, w.re), add(z.im, w.im))), ("sub_", (sub(z.re, w.re), sub(z.im, w.im))), ("mul_", cmul(zz, ww))):
                t = Z(ex, tr, "t", z.re, z.im)
                call(f, t.addr, w.re, w.im)
                ex.check(ceq(t.get(), exp), f + ":in-place-form-differs")
        elif clause == "division":
            ex.assume(disj([neg(req(w.re, ZERO)), neg(req(w.im, ZERO))]))
            call("div", o.addr, z.re, z.im, w.re, w.im)
            q = o.get()
            ex.check(ceq(cmul(q, ww), zz), "div:quotient-times-divisor-is-not-the-dividend")
            call("inv", o.addr, w.re, w.im)
            iv = o.get()
            ex.check(ceq(cmul(iv, ww), (ONE, ZERO)), "inv:z*inv(z)-is-not-1")
            t = Z(ex, tr, "t", iv[0], iv[1])
            call("inv_", t.addr)
            ex.check(ceq(t.get(), ww), "inv:inv(inv(z))-is-not-z")
            t = Z(ex, tr, "t", z.re, z.im)
            call("mul_", t.addr, w.re, w.im)
            call("div_", t.addr, w.re, w.im)
            ex.check(ceq(t.get(), zz), "mul-then-div-by-the-same-number-is-not-the-identity")
        elif clause == "magnitude":
            # "magnitudes from tiny to large": inverse and quotient are representable for these arguments, so no intermediate
            # result of the real code may leave the double range (exact-real stand-in for IEEE overflow / underflow to zero)
            from fractions import Fraction as Fr
            big, small = Fr(2) ** 2000, Fr(1, 2 ** 2000)
            n2 = add(mul(w.re, w.re), mul(w.im, w.im))
            ex.assume(conj([rle(small, n2), rle(n2, big)]))                      # 2^-1000 <= |w| <= 2^1000
            ex.range_watch = (Fr(2) ** 1024, Fr(1, 2 ** 1075))
            call("inv", o.addr, w.re, w.im)
            t = Z(ex, tr, "t", w.re, w.im)
            call("inv_", t.addr)
            m2 = add(mul(z.re, z.re), mul(z.im, z.im))
            ex.assume(conj([rle(Fr(1, 2 ** 1000), m2), rle(m2, Fr(2) ** 1000), rle(Fr(1, 2 ** 1000), n2), rle(n2, Fr(2) ** 1000)]))   # 2^-500 <= |z|, |w| <= 2^500
            call("div", o.addr, z.re, z.im, w.re, w.im)
            t = Z(ex, tr, "t", z.re, z.im)
            call("div_", t.addr, w.re, w.im)
            ex.range_watch = None
        elif clause == "scalar-division":
            ex.assume(neg(req(s, ZERO)))
            call("div_real", o.addr, z.re, z.im, s)
            ex.check(ceq(o.get(), (div(z.re, s), div(z.im, s))), "div_real:wrong-value")
            call("div_imag", o.addr, z.re, z.im, s)
            ex.check(ceq(cmul(o.get(), (ZERO, s)), zz), "div_imag:quotient-times-(i*y)-is-not-the-dividend")
            for a, b in (("mul_real_", "div_real_"), ("mul_imag_", "div_imag_")):
                t = Z(ex, tr, "t", z.re, z.im)
                call(a, t.addr, s)
                call(b, t.addr, s)
                ex.check(ceq(t.get(), zz), "%s-then-%s-by-the-same-scalar-is-not-the-identity" % (a, b))
        elif clause == "polar":
            # abs / abs2 / arg on the axes, polar construction
            a2 = tr.call("a_complex_abs2", z.re, z.im, ret="f64")
            ex.check(req(a2, add(mul(z.re, z.re), mul(z.im, z.im))), "abs2")
            ab = tr.call("a_complex_abs", z.re, z.im, ret="f64")
            ex.check(conj([rle(ZERO, ab), req(mul(ab, ab), a2)]), "abs:not-the-modulus")
            x = ex.fresh_real("x")
            ex.assume(rlt(ZERO, x))
            ex.check(req(tr.call("a_complex_arg", x, ZERO, ret="f64"), ZERO), "arg:positive-real-axis")
            ex.check(req(tr.call("a_complex_arg", sub(ZERO, x), ZERO, ret="f64"), PI), "arg:negative-real-axis")
            ex.check(req(tr.call("a_complex_arg", ZERO, x, ret="f64"), HALF_PI), "arg:positive-imaginary-axis")
            ex.check(req(tr.call("a_complex_arg", ZERO, sub(ZERO, x), ret="f64"), -HALF_PI), "arg:negative-imaginary-axis")
            ex.check(req(tr.call("a_complex_arg", ZERO, ZERO, ret="f64"), ZERO), "arg:origin")
    return h


def div(a, b):
    if isinstance(a, (Fraction, int)) and isinstance(b, (Fraction, int)):
        return Fraction(a) / Fraction(b)
    return R(a) / R(b)


def nonneg(v):
    return rle(ZERO, v)


def nonpos(v):
    return rle(v, ZERO)


def same_sign_weak(v, ref):
    """'never the opposite sign' (underflow to zero is not an alarm)"""
    return conj([z3.Implies(R(ref) > 0, R(v) >= 0), z3.Implies(R(ref) < 0, R(v) <= 0)])


def principal_harness(fn, quadrant):
    """Sign / range table of ISO C Annex G for the fallback bodies, one quadrant per instance."""
    def h(ex):
        tr = Tr(ex, "")
        set_mode(ex)
        libm(ex)
        ex.path_tags = [fn, quadrant]
        z = Z(ex, tr, "z")
        sx, sy = quadrant
        ex.assume({"+": rlt(ZERO, z.re), "-": rlt(z.re, ZERO)}[sx])
        ex.assume({"+": rlt(ZERO, z.im), "-": rlt(z.im, ZERO)}[sy])
        tr.call("a_complex_%s_" % fn, z.addr, ret="void")
        re, im = z.get()
        X, Y = z.re, z.im
        hp, pi = R(HALF_PI), R(PI)
        if fn == "sqrt":
            ex.check(nonneg(re), "csqrt:real-part-negative")
            ex.check(same_sign_weak(im, Y), "csqrt:imaginary-part-has-the-opposite-sign-of-Im(z)")
            # the body multiplies by the literal A_REAL_SQRT1_2 (a rounding of 1/sqrt 2): the square equals z up to that rounding
            tol = Fraction(1, 2 ** 40)
            mag = add(rabs(X), rabs(Y))
            ex.check(conj([rle(rabs(sub(sub(mul(re, re), mul(im, im)), X)), mul(tol, mag)), rle(rabs(sub(mul(2, mul(re, im)), Y)), mul(tol, mag))]), "csqrt:square-is-not-z")
        elif fn == "asin":
            ex.check(conj([R(re) >= -hp, R(re) <= hp]), "casin:real-part-outside-[-pi/2,pi/2]")
            ex.check(same_sign_weak(re, X), "casin:real-part-has-the-opposite-sign-of-Re(z)")
            ex.check(same_sign_weak(im, Y), "casin:imaginary-part-has-the-opposite-sign-of-Im(z)")
        elif fn == "acos":
            ex.check(conj([R(re) >= 0, R(re) <= pi]), "cacos:real-part-outside-[0,pi]")
            ex.check(conj([z3.Implies(R(X) > 0, R(re) <= hp), z3.Implies(R(X) < 0, R(re) >= hp)]), "cacos:real-part-on-the-wrong-side-of-pi/2")
            ex.check(same_sign_weak(sub(ZERO, im), Y), "cacos:imaginary-part-does-not-have-the-opposite-sign-of-Im(z)")
        elif fn == "atan":
            ex.check(conj([R(re) >= -hp, R(re) <= hp]), "catan:real-part-outside-[-pi/2,pi/2]")
            ex.check(same_sign_weak(re, X), "catan:real-part-has-the-opposite-sign-of-Re(z)")
            ex.check(same_sign_weak(im, Y), "catan:imaginary-part-has-the-opposite-sign-of-Im(z)")
        elif fn == "asinh":
            ex.check(same_sign_weak(re, X), "casinh:real-part-has-the-opposite-sign-of-Re(z)")
            ex.check(conj([R(im) >= -hp, R(im) <= hp]), "casinh:imaginary-part-outside-[-pi/2,pi/2]")
            ex.check(same_sign_weak(im, Y), "casinh:imaginary-part-has-the-opposite-sign-of-Im(z)")
        elif fn == "acosh":
            ex.check(nonneg(re), "cacosh:real-part-negative")
            ex.check(conj([R(im) >= -pi, R(im) <= pi]), "cacosh:imaginary-part-outside-[-pi,pi]")
            ex.check(same_sign_weak(im, Y), "cacosh:imaginary-part-has-the-opposite-sign-of-Im(z)")
            ex.check(conj([z3.Implies(R(X) < 0, rabs(im) >= hp), z3.Implies(R(X) > 0, rabs(im) <= hp)]), "cacosh:imaginary-part-on-the-wrong-side-of-pi/2")
        elif fn == "atanh":
            ex.check(same_sign_weak(re, X), "catanh:real-part-has-the-opposite-sign-of-Re(z)")
            ex.check(conj([R(im) >= -hp, R(im) <= hp]), "catanh:imaginary-part-outside-[-pi/2,pi/2]")
            ex.check(same_sign_weak(im, Y), "catanh:imaginary-part-has-the-opposite-sign-of-Im(z)")
        elif fn == "log":
            ex.check(conj([R(im) > -pi, R(im) <= pi]), "clog:imaginary-part-outside-(-pi,pi]")
            ex.check(same_sign_weak(im, Y), "clog:imaginary-part-has-the-opposite-sign-of-Im(z)")
            ex.check(conj([z3.Implies(R(X) > 0, rabs(im) < hp), z3.Implies(R(X) < 0, rabs(im) > hp)]), "clog:argument-in-the-wrong-half-plane")
    return h


def annexg_stubs(ex):
    """Assume-guarantee: the bodies of casin / cacos are replaced by the ISO C Annex G sign/range table (their direct
    proof does not finish: 120 s per query, no verdict); composite functions built on them are checked against it."""
    hp, pi = R(HALF_PI), R(PI)

    def stub(name, contract, conc):
        def h(ex, ctx):
            re, im = ex.load(ctx, F64), ex.load(ctx + 8, F64)
            if ex.concrete is not None:
                import cmath
                v = conc(complex(float(re), float(im)))
                rr, ri = Fraction(v.real), Fraction(v.imag)
            else:
                rr, ri = ex.fresh_real(name + "_re"), ex.fresh_real(name + "_im")
                ex.add(contract(R(re), R(im), rr, ri))
            ex.store(ctx, rr, F64)
            ex.store(ctx + 8, ri, F64)
        ex.hooks["a_complex_%s_" % name] = h
    weak = lambda v, ref: z3.And(z3.Implies(ref > 0, v >= 0), z3.Implies(ref < 0, v <= 0))
    strict = lambda v, ref: z3.And(z3.Implies(ref > 0, v > 0), z3.Implies(ref < 0, v < 0))      # off the axes the mathematical value is non-zero
    import cmath
    stub("asin", lambda x, y, rr, ri: z3.And(rr >= -hp, rr <= hp, strict(rr, x), strict(ri, y)), cmath.asin)
    stub("acos", lambda x, y, rr, ri: z3.And(rr >= 0, rr <= pi, z3.Implies(x > 0, rr <= hp), z3.Implies(x < 0, rr >= hp), strict(-ri, y)), cmath.acos)


def composite_harness(fn, quadrant):
    """Inverse hyperbolic functions built on casin / cacos (taken by contract): their own sign-selection logic."""
    def h(ex):
        tr = Tr(ex, "")
        set_mode(ex)
        libm(ex)
        annexg_stubs(ex)
        ex.path_tags = [fn, quadrant, "composite"]
        z = Z(ex, tr, "z")
        sx, sy = quadrant
        ex.assume({"+": rlt(ZERO, z.re), "-": rlt(z.re, ZERO)}[sx])
        ex.assume({"+": rlt(ZERO, z.im), "-": rlt(z.im, ZERO)}[sy])
        tr.call("a_complex_%s_" % fn, z.addr, ret="void")
        re, im = z.get()
        X, Y = z.re, z.im
        hp, pi = R(HALF_PI), R(PI)
        if fn == "asinh":
            ex.check(same_sign_weak(re, X), "casinh:real-part-has-the-opposite-sign-of-Re(z)")
            ex.check(conj([R(im) >= -hp, R(im) <= hp]), "casinh:imaginary-part-outside-[-pi/2,pi/2]")
            ex.check(same_sign_weak(im, Y), "casinh:imaginary-part-has-the-opposite-sign-of-Im(z)")
        else:
            ex.check(nonneg(re), "cacosh:real-part-negative")
            ex.check(conj([R(im) >= -pi, R(im) <= pi]), "cacosh:imaginary-part-outside-[-pi,pi]")
            ex.check(same_sign_weak(im, Y), "cacosh:imaginary-part-has-the-opposite-sign-of-Im(z)")
            ex.check(conj([z3.Implies(R(X) < 0, rabs(im) >= hp), z3.Implies(R(X) > 0, rabs(im) <= hp)]), "cacosh:imaginary-part-on-the-wrong-side-of-pi/2")
    return h


def structure_harness(fn, quadrant):
    """casin / cacos fallback bodies (Hull et al.): which libm function receives which argument.  With A = (|z+1| + |z-1|)/2 and
    B = |Re z|/A the principal value is asin B (acos B) + i log(A + sqrt(A^2-1)) up to the quadrant fix-up.  On every path:
      * real part from asin/acos: the argument t satisfies t*A = |Re z|;
      * real part from atan: with q = sqrt(D) the square root the body took, either t*q = x and D = A^2-x^2 (or, in the
        |Re z| > 1 form, t*q*y = x and D*y^2 = A^2-x^2), i.e. t = B/sqrt(1-B^2) = tan(asin B); the reciprocal for acos;
      * imaginary part: the argument of log is a + q2 with a = A and q2 = sqrt(D2), D2 = A^2-1; the argument of log1p is
        am1 + q2 with am1 = A-1, D2 = A^2-1 - so it equals A (-1) + sqrt(A^2-1);
      * the quadrant fix-up of the two libm results.
    These are algebraic identities in x, y and the two moduli, decided by nlsat on the path condition without the
    constraints that only describe libm results (a subset of the assumptions: a stronger statement; the exact query is the
    fallback).  Configuration: complex functions on their fallback bodies, real functions bound to libm (hypot, log1p by contract)."""
    def h(ex):
        tr = Tr(ex, "")
        set_mode(ex)
        u = libm(ex)
        ex.path_tags = [fn, quadrant, "structure"]
        sx, sy = quadrant
        x, y = ex.fresh_real("absre"), ex.fresh_real("absim")          # |Re z|, |Im z| are the symbols; z = (+-x, +-y)
        ex.assume(conj([rlt(ZERO, x), rlt(ZERO, y)]))
        z = Z(ex, tr, "z", x if sx == "+" else sub(ZERO, x), y if sy == "+" else sub(ZERO, y))
        conc = ex.concrete is not None
        memo = {}

        def lean_hypot(ex, a, b):               # r >= 0, r^2 = a^2 + b^2 and linear consequences, no absolute values; a function: same arguments, same value
            if conc:
                return Fraction(math.hypot(float(a), float(b)))
            key = (R(a).get_id(), R(b).get_id())
            if key not in memo:
                r = ex.fresh_real("hypot")
                ex.add(z3.And(r >= 0, r * r == R(a) * R(a) + R(b) * R(b), r >= R(a), r >= -R(a), r >= R(b), r >= -R(b)))
                memo[key] = r
            return memo[key]
        ex.hooks["hypot"] = lean_hypot
        roots = []
        base_sqrt = ex.hooks["sqrt"]

        def rec_sqrt(ex, v):
            q = base_sqrt(ex, v)
            roots.append((ex.as_real(v), q))
            return q
        ex.hooks["sqrt"] = ex.hooks["llvm.sqrt.f64"] = rec_sqrt
        tr.call("a_complex_%s_" % fn, z.addr, ret="void")
        re, im = z.get()
        rr, ss = lean_hypot(ex, add(x, ONE), y), lean_hypot(ex, sub(x, ONE), y)
        A = mul(Fraction(1, 2), add(rr, ss))
        A2m1 = sub(mul(A, A), ONE)
        d = sub(mul(A, A), mul(x, x))           # A^2 - x^2 = A^2 (1 - B^2) > 0 off the axes
        LIBM = ("atan!", "asin!", "acos!", "log!", "log1p!")
        keep = lambda q: not any(n.startswith(LIBM) for n in core.var_names(q))
        chk = (lambda c, lab: ex.check(c, lab)) if conc else (lambda c, lab: ex.check_abs(c, lab, keep=keep, timeout_ms=30000))
        prim = u[fn].calls          # asin or acos
        at = u["atan"].calls
        ex.check(len(prim) + len(at) == 1, "c%s:real-part-not-from-exactly-one-of-%s/atan" % (fn, fn))
        if prim:
            t, ur = prim[0]
            chk(req(mul(t, A), x), "c%s:argument-of-%s-is-not-|Re z|/A" % (fn, fn))
        else:
            t, ur = at[0]
            ex.check(len(roots) >= 1, "c%s:atan-branch-without-a-square-root" % fn)
            D, q = roots.pop(0)
            lab = "c%s:argument-of-atan-is-not-%s" % (fn, "B/sqrt(1-B^2)" if fn == "asin" else "sqrt(1-B^2)/B")
            # which of the two forms the body used is a cheap question (t is x/q, x/(q*y), q/x or q*y/x syntactically)
            lhs = mul(t, q) if fn == "asin" else mul(t, x)
            if (req(lhs, x if fn == "asin" else q) is True) if conc else ex.prove(req(lhs, x if fn == "asin" else q), keep=keep):
                chk(req(D, d), lab)
            else:
                chk(req(mul(lhs, y), x) if fn == "asin" else req(lhs, mul(q, y)), lab + "-(form)")
                chk(req(mul(D, mul(y, y)), d), lab)
        lg, l1 = u["log"].calls, u["log1p"].calls
        ex.check(len(lg) + len(l1) == 1 and len(roots) == 1, "c%s:imaginary-part-not-from-exactly-one-of-log/log1p-with-one-square-root" % fn)
        D2, q2 = roots[0]
        t, ui = (lg or l1)[0]
        chk(conj([req(sub(t, q2), A if lg else sub(A, ONE)), req(D2, A2m1)]),
            "c%s:argument-of-%s-is-not-A%s+sqrt(A^2-1)" % (fn, "log" if lg else "log1p", "" if lg else "-1"))
        # quadrant fix-up of the two libm results
        if fn == "asin":
            ex.check(req(re, ur if sx == "+" else sub(ZERO, ur)), "casin:real-part-is-not-sign(Re z)*asin(B)")
            ex.check(req(im, ui if sy == "+" else sub(ZERO, ui)), "casin:imaginary-part-is-not-sign(Im z)*log(...)")
        else:
            ex.check(req(re, ur if sx == "+" else sub(PI, ur)), "cacos:real-part-is-not-acos(B)-or-pi-acos(B)")
            ex.check(req(im, sub(ZERO, ui) if sy == "+" else ui), "cacos:imaginary-part-is-not--sign(Im z)*log(...)")
    return h


def real_arg_harness(fn):
    """The real-argument variants on their intervals obey the same table."""
    def h(ex):
        tr = Tr(ex, "")
        set_mode(ex)
        libm(ex)
        ex.path_tags = [fn + "_real"]
        o = Z(ex, tr, "o")
        x = ex.fresh_real("x")
        if fn == "atanh":
            ex.assume(conj([rlt(ZERO, rabs(sub(x, ONE))), rlt(ZERO, rabs(add(x, ONE)))]))      # the poles +-1 are excluded
        tr.call("a_complex_%s_real" % fn, o.addr, x, ret="void")
        re, im = o.get()
        hp, pi = R(HALF_PI), R(PI)
        if fn == "sqrt":
            ex.check(conj([nonneg(re), nonneg(im), req(sub(mul(re, re), mul(im, im)), x), req(mul(re, im), ZERO)]), "csqrt_real:not-the-principal-root")
        elif fn == "asin":
            ex.check(conj([R(re) >= -hp, R(re) <= hp, same_sign_weak(re, x)]), "casin_real:real-part")
            ex.check(z3.Implies(rabs(x) <= 1, R(im) == 0), "casin_real:imaginary-part-inside-[-1,1]")
        elif fn == "acos":
            ex.check(conj([R(re) >= 0, R(re) <= pi]), "cacos_real:real-part-outside-[0,pi]")
            ex.check(z3.Implies(rabs(x) <= 1, R(im) == 0), "cacos_real:imaginary-part-inside-[-1,1]")
            ex.check(conj([z3.Implies(R(x) > 1, R(re) == 0), z3.Implies(R(x) < -1, R(re) == pi)]), "cacos_real:real-part-outside-[-1,1]")
        elif fn == "acosh":
            ex.check(nonneg(re), "cacosh_real:real-part-negative")
            ex.check(conj([R(im) >= 0, R(im) <= pi, z3.Implies(R(x) >= 1, R(im) == 0), z3.Implies(R(x) < -1, R(im) == pi)]), "cacosh_real:imaginary-part")
        elif fn == "atanh":
            ex.check(same_sign_weak(re, x), "catanh_real:real-part-has-the-opposite-sign")
            ex.check(z3.Implies(rabs(x) < 1, R(im) == 0), "catanh_real:imaginary-part-inside-(-1,1)")
    return h


def compose_harness(kind):
    """Reciprocal families are inv o f; log2/log10 are log times the documented constant."""
    def h(ex):
        tr = Tr(ex, "")
        set_mode(ex)
        libm(ex)
        ex.path_tags = ["compose", kind]
        ex.on_fdiv0 = "infeasible"          # poles (cos z = 0, ...) are excluded by the property
        z = Z(ex, tr, "z")
        ex.assume(conj([rlt(ZERO, rabs(z.re)), rlt(ZERO, rabs(z.im))]))
        if kind in ("log2", "log10"):
            base = {"log2": 2, "log10": 10}[kind]
            a, b = Z(ex, tr, "a", z.re, z.im), Z(ex, tr, "b", z.re, z.im)
            tr.call("a_complex_log_", a.addr, ret="void")
            tr.call("a_complex_%s_" % kind, b.addr, ret="void")
            (lr, li), (br, bi) = a.get(), b.get()
            lnb = Fraction(math.log(base))
            tol = Fraction(1, 2 ** 40)
            # log_b z = log z / ln b, component-wise (the multiplier applied is 1/ln b up to the literal's rounding)
            ex.check(conj([rle(rabs(sub(mul(br, lnb), lr)), mul(tol, rabs(lr))), rle(rabs(sub(mul(bi, lnb), li)), mul(tol, rabs(li)))]),
                     "c%s:not-clog-divided-by-ln(%d)" % (kind, base))
        else:
            f = {"sec": "cos", "csc": "sin", "cot": "tan", "sech": "cosh", "csch": "sinh", "coth": "tanh"}[kind]
            a, b = Z(ex, tr, "a", z.re, z.im), Z(ex, tr, "b", z.re, z.im)
            tr.call("a_complex_%s_" % f, a.addr, ret="void")
            tr.call("a_complex_%s_" % kind, b.addr, ret="void")
            ex.check(ceq(cmul(a.get(), b.get()), (ONE, ZERO)), "c%s:not-the-reciprocal-of-c%s" % (kind, f))
    return h


LIBM_C = ["csqrt", "cexp", "clog", "csin", "ccos", "ctan", "csinh", "ccosh", "ctanh", "casin", "cacos", "catan", "casinh", "cacosh"]


def plumbing_harness(fn):
    """libm-bound configuration: the wrapper hands its argument to the C library function and stores the result."""
    def h(ex):
        tr = Tr(ex, "")
        set_mode(ex)
        libm(ex)
        ex.path_tags = ["libm-bound", fn]
        seen = {}

        def hook(ex, re, im):
            if ex.concrete is not None:
                import cmath
                v = getattr(cmath, fn[1:])(complex(float(re), float(im)))
                return [Fraction(v.real), Fraction(v.imag)]
            seen["arg"] = (re, im)
            seen["ret"] = (ex.fresh_real("ret_re"), ex.fresh_real("ret_im"))
            return list(seen["ret"])
        ex.hooks[fn] = hook
        z = Z(ex, tr, "z")
        tr.call("a_complex_%s_" % fn[1:], z.addr, ret="void")
        if ex.concrete is not None:
            return
        ex.check("arg" in seen, "%s:the-C-library-function-is-not-called" % fn)
        ex.check(ceq(seen["arg"], (z.re, z.im)), "%s:argument-not-passed-through" % fn)
        ex.check(ceq(z.get(), seen["ret"]), "%s:result-not-stored" % fn)
    return h


def const_check(res, cfg):
    """Reciprocal / multiple relations between the literals of a/math.h, decided by z3 on exact rationals."""
    mod = ir.parse_module(build.ir_text(cfg, TU))
    ir.RATIONALIZE, keep = False, ir.RATIONALIZE
    mod = ir.parse_module(build.ir_text(cfg, TU))
    ir.RATIONALIZE = keep
    val = {}
    for n, g in mod.globals.items():
        if n.startswith("k_") and g.init and g.init[0] == "c":
            val[n[2:]] = g.init[1]
    rel = [("LN1_2 * LN2 = 1", lambda v: v["LN1_2"] * v["LN2"] - 1), ("LN1_10 * LN10 = 1", lambda v: v["LN1_10"] * v["LN10"] - 1),
           ("LOG2E * LN2 = 1", lambda v: v["LOG2E"] * v["LN2"] - 1), ("LOG10E * LN10 = 1", lambda v: v["LOG10E"] * v["LN10"] - 1),
           ("PI_2 * 2 = PI", lambda v: (v["PI_2"] * 2 - v["PI"]) / v["PI"]), ("PI_4 * 4 = PI", lambda v: (v["PI_4"] * 4 - v["PI"]) / v["PI"]),
           ("TAU = 2 PI", lambda v: (v["TAU"] - 2 * v["PI"]) / v["PI"]), ("1_PI * PI = 1", lambda v: v["1_PI"] * v["PI"] - 1), ("2_PI * PI = 2", lambda v: (v["2_PI"] * v["PI"] - 2) / 2),
           ("1_TAU * TAU = 1", lambda v: v["1_TAU"] * v["TAU"] - 1), ("SQRT2^2 = 2", lambda v: (v["SQRT2"] ** 2 - 2) / 2), ("SQRT1_2 * SQRT2 = 1", lambda v: v["SQRT1_2"] * v["SQRT2"] - 1),
           ("SQRT3^2 = 3", lambda v: (v["SQRT3"] ** 2 - 3) / 3), ("SQRT1_3 * SQRT3 = 1", lambda v: v["SQRT1_3"] * v["SQRT3"] - 1), ("RAD2DEG * DEG2RAD = 1", lambda v: v["RAD2DEG"] * v["DEG2RAD"] - 1),
           ("PI is the double nearest to pi", lambda v: v["PI"] - Fraction(math.pi)), ("LN2 is the double nearest to ln 2", lambda v: v["LN2"] - Fraction(math.log(2)))]
    eps = Fraction(1, 2 ** 48)
    for name, f in rel:
        try:
            d = f(val)
        except KeyError as e:
            res.error("constant %s not found in a/math.h" % e)
            continue
        s = z3.Solver()
        x = z3.Real("residual")
        s.add(x == z3.RealVal(d), z3.Or(x > z3.RealVal(eps), x < -z3.RealVal(eps)))
        r = s.check()
        res.queries += 1
        if r == z3.unsat:
            res.ob("constants/" + name.replace(" ", ""), "holds", residual=float(d))
        else:
            rp = res.save_replay("constant_%s.txt" % name.replace(" ", "_").replace("*", "x").replace("/", "_"), "relation %s: residual %s (literals: %s)\n" % (name, float(d), {k: float(v) for k, v in val.items()}))
            res.ob("constants/" + name.replace(" ", ""), "violated", residual=float(d))
            res.violation("constants:%s" % name.split("=")[0].strip().replace(" ", ""), "constant relation %s fails: residual %.6g" % (name, float(d)), replay=rp)


def builder(p):
    k = p[0]
    if k == "arith":
        return "arith/" + p[1], arith_harness(p[1])
    if k == "principal":
        return "principal/%s/%s%s" % (p[1], p[2][0], p[2][1]), principal_harness(p[1], p[2])
    if k == "composite":
        return "composite/%s/%s%s" % (p[1], p[2][0], p[2][1]), composite_harness(p[1], p[2])
    if k == "structure":
        return "structure/%s/%s%s" % (p[1], p[2][0], p[2][1]), structure_harness(p[1], p[2])
    if k == "realarg":
        return "realarg/" + p[1], real_arg_harness(p[1])
    if k == "compose":
        return "compose/" + p[1], compose_harness(p[1])
    return "libm-bound/" + p[1], plumbing_harness(p[1])


def main():
    res = Result(PID)
    T = tier()
    cfg_none = gen_config(have="none")
    cfg_all = gen_config(have="all")
    const_check(res, cfg_none)
    arith = [("arith", c) for c in ("ring", "division", "magnitude", "scalar-division", "polar")]
    quads = [("+", "+"), ("-", "+"), ("-", "-"), ("+", "-")]
    fb = [("principal", f, q) for f in ("sqrt", "atan", "atanh", "log") for q in quads]
    fb += [("composite", f, q) for f in ("asinh", "acosh") for q in quads]
    STRUCT = [("structure", f, q) for f in ("asin", "acos") for q in quads]
    hard = [("principal", f, q) for f in ("asin", "acos") for q in quads]       # attempted in the thorough tier only, droppable
    fb += [("realarg", f) for f in ("sqrt", "asin", "acos", "acosh", "atanh")]
    fb += [("compose", k) for k in ("log2", "log10", "sec", "csc", "cot", "sech", "csch", "coth")]
    srcs = ["complex.c", "math.c", "a.c"]
    opts = dict(validate_every=5, tol=1e-6, exec_attrs={"force_solver": True}, exec_opts={"solver": "nra", "timeout_ms": 120000},
                time_budget=400 if T == "quick" else 3000, sigmap=lambda n: n)
    # the magnitude clause costs 150 s on the fallback hypot body (one solver query per arithmetic result): thorough tier only there
    e2.run_e2(res, cfg_none, srcs, [a for a in arith if T == "thorough" or a[1] != "magnitude"] + fb, builder, group="fallback", **opts)
    if T == "thorough":
        o2 = dict(opts, time_budget=1500, droppable=True)
        e2.run_e2(res, cfg_none, srcs, hard, builder, group="fallback-direct", **o2)
    # third configuration: complex functions on their fallback bodies, real functions bound to libm (the real fallbacks belong to C11)
    cfg_mixed = gen_config(have=[h for h in ALL_HAVE if not h.startswith("C")])
    e2.run_e2(res, cfg_mixed, srcs, STRUCT, builder, group="fallback-structure", **dict(opts, exec_attrs={"force_solver": True, "branch_real_select": True}, droppable=True, time_budget=900 if T == "quick" else 3000))
    e2.run_e2(res, cfg_all, srcs, arith + [("libm", f) for f in LIBM_C], builder, group="libm-bound", **opts)
    res.functions.update(["a_complex_add/sub/mul/div/inv/conj/neg and all _real/_imag/in-place forms", "a_complex_abs/abs2/arg/polar",
                          "fallback bodies of a_complex_{sqrt,asin,acos,atan,asinh,acosh,atanh,log,log2,log10,sec,csc,cot,sech,csch,coth}_ and the *_real variants",
                          "libm-bound wrappers: " + ", ".join(LIBM_C), "constants of a/math.h"])
    res.bounds = {"configurations": "all A_HAVE_* switches off (every fallback body, the configuration the test suite never compiles), all on (plumbing), and complex switches off with the real ones on (structure of the casin/cacos bodies)",
                  "arguments": "all real z (and scalars) off the axes / cuts, one open quadrant per instance",
                  "magnitude": "a_complex_inv/inv_ for 2^-1000 <= |z| <= 2^1000, a_complex_div/div_ for 2^-500 <= |x|,|z| <= 2^500: every fadd/fsub/fmul/fdiv result of the executed IR stays below 2^1024 in magnitude and every divisor at or above 2^-1075 (exact-real stand-in for IEEE overflow / underflow to zero; libm-bound configuration in the quick tier, both configurations in the thorough tier); a counterexample is confirmed when the native IEEE run departs from the exact value"}
    res.outside = ["the accuracy clause ('within a small multiple of machine precision scaled by conditioning') for every transcendental evaluation - no installed solver decides it",
                   "exp o log = identity to rounding", "float / long double instantiations", "values ON the branch cuts", "a_complex_pow*, a_complex_exp, trigonometric/hyperbolic forward functions beyond the reciprocal relation",
                   "casin/cacos fallback bodies: decided is WHICH argument each libm call receives (asin/acos: B = |Re z|/A; atan: B/sqrt(1-B^2) or its reciprocal; log: A+sqrt(A^2-1); log1p: that minus 1) and the quadrant fix-up, as algebraic identities; together with the libm contracts this is the principal value in the reals, the evaluation error is outside",
                   "direct proof of the Annex G table for the fallback bodies of casin / cacos (z3 nlsat: no verdict within 120 s per query; attempted in the thorough tier and listed under dropped_from_claim) - the composites casinh / cacosh are checked against that table as a contract"]
    res.assumptions = ["libm reals are fresh values constrained by sign / range / monotonicity / parity contracts (ISO C F.10) per call site", "hypot(x,y) = sqrt(x^2+y^2) exactly; sqrt(x) = y >= 0 with y*y = x",
                       "sign clauses are stated weakly ('never the opposite sign') so that underflow to zero is not an alarm"]
    res.stubs = ["atan, asin, acos, log, log1p, exp, sin, cos, sinh, cosh, tanh, acosh, asinh, atanh, hypot, atan2 (+ c* functions in the libm-bound configuration)"]
    e2.finish_coverage(res, must_cover=["a_complex_asin_", "a_complex_acos_", "a_complex_acosh_", "a_complex_sqrt_", "a_complex_div_", "a_complex_log2_"], report_funcs=None)
    return res.finish()


if __name__ == "__main__":
    sys.exit(main())
