"""C20: the Rust binding's mirrored types and foreign declarations match the C ABI — E3 (DESIGN.md 4/C20).
Layouts and prototypes are computed by the two compilers from the current sources (clang/gcc on the
headers and src/*.c, rustc on a copy of src/lib.rs with an appended probe); z3 decides, per mirrored
structure, that every byte image is read identically by both definitions, and per foreign function that
parameter/return machine types agree."""
import os, re, sys, json
from vcommon import *
sys.path.insert(0, os.path.join(VERIF, "lib", "llsym"))
import z3
import ir, build

PID = "C20"
# Rust struct -> C type it mirrors (None: Rust-side helper whose first field is passed as a C array)
MIRROR = {"hpf": "a_hpf", "lpf": "a_lpf", "pid": "a_pid", "pid_fuzzy": "a_pid_fuzzy", "pid_neuro": "a_pid_neuro", "regress_linear": "a_regress_linear",
          "regress_simple": "a_regress_simple", "tf": "a_tf", "trajbell": "a_trajbell", "trajpoly3": "a_trajpoly3", "trajpoly5": "a_trajpoly5",
          "trajpoly7": "a_trajpoly7", "trajtrap": "a_trajtrap", "version": "a_version"}
HEADERS = ["pid.h", "pid_fuzzy.h", "pid_neuro.h", "tf.h", "lpf.h", "hpf.h", "trajbell.h", "trajtrap.h", "trajpoly3.h", "trajpoly5.h", "trajpoly7.h",
           "regress_linear.h", "regress_simple.h", "version.h", "crc.h"]
def find_rustc():
    import shutil
    cands = [os.environ.get("RUSTC"), shutil.which("rustc"), "/root/.cargo/bin/rustc", os.path.expanduser("~/.cargo/bin/rustc"), "/usr/local/bin/rustc", "/usr/bin/rustc"]
    for c in cands:
        if c and os.path.exists(c):
            return c
    return "rustc"


RUSTC = find_rustc()


def rust_structs(src):
    out = {}
    for m in re.finditer(r'#\[repr\(C\)\]\s*pub struct (\w+)\s*\{(.*?)\n\}', src, re.S):
        body = re.sub(r'//[^\n]*', '', m.group(2))
        fields = []
        for fm in re.finditer(r'(?:pub(?:\([^)]*\))?\s+)?(\w+)\s*:\s*((?:[^,()\[\]]|\([^()]*\)|\[[^\]]*\])+)', body):
            fields.append((fm.group(1), " ".join(fm.group(2).split())))
        out[m.group(1)] = fields
    return out


def rust_externs(src):
    out = {}
    for blk in re.finditer(r'extern\s+"C"\s*\{(.*?)\n\}', src, re.S):
        for fm in re.finditer(r'fn\s+(\w+)\s*\((.*?)\)\s*(?:->\s*([^;]+))?;', blk.group(1), re.S):
            args = []
            depth, cur = 0, ""
            for ch in fm.group(2):
                if ch in "(<[":
                    depth += 1
                elif ch in ")>]":
                    depth -= 1
                if ch == "," and depth == 0:
                    args.append(cur)
                    cur = ""
                else:
                    cur += ch
            if cur.strip():
                args.append(cur)
            params = [" ".join(a.split(":", 1)[1].split()) for a in args if ":" in a]
            out[fm.group(1)] = (params, " ".join(fm.group(3).split()) if fm.group(3) else "()")
    return out


def rust_class(t, real_bits, structs):
    t = t.strip()
    if t in ("real",):
        return "f%d" % real_bits
    if t in ("f32", "f64"):
        return t
    m = re.fullmatch(r'[ui](8|16|32|64)', t)
    if m:
        return "i" + m.group(1)
    if t in ("usize", "isize"):
        return "i64"
    if t in ("c_int", "c_uint"):
        return "i32"
    if t == "bool":
        return "i8"
    if t == "()":
        return "void"
    if t.startswith("*") or t.startswith("&") or "fn(" in t or t.startswith("Option<"):
        return "ptr"
    m = re.fullmatch(r'\[(.+);\s*(\w+)\]', t)
    if m:
        n = int(m.group(2), 0)
        return "[%d x %s]" % (n, rust_class(m.group(1), real_bits, structs))
    if t in structs:
        return "struct " + t
    return "?" + t


def c_class(t, real_bits=None):
    if isinstance(t, ir.IntT):
        return "i%d" % (8 if t.bits == 1 else t.bits)
    if isinstance(t, ir.FloatT):
        return {"double": "f64", "float": "f32"}.get(t.kind, t.kind)
    if isinstance(t, (ir.PtrT, ir.FuncT)):
        return "ptr"
    if isinstance(t, ir.VoidT):
        return "void"
    if isinstance(t, ir.ArrT):
        return "[%d x %s]" % (t.n, c_class(t.elem))
    if isinstance(t, ir.StructT):
        return "struct " + (t.name or "?").replace("%struct.", "")
    return "?" + repr(t)


def c_layouts(cfg, real):
    """(struct -> (size, align, [(name, offset, size, class)])) computed by gcc from the current headers."""
    inc = "\n".join('#include "a/%s"' % h for h in HEADERS)
    lay = os.path.join(scratch(), "lay_%d.c" % real)
    with open(lay, "w") as f:
        f.write(inc + "\n" + "\n".join("unsigned long s_%s = sizeof(%s);" % (c, c) for c in sorted(set(MIRROR.values()))) + "\n")
    rc, so, se, _ = run(["clang-14", "-fsyntax-only", "-Xclang", "-fdump-record-layouts"] + cflags(cfg) + [lay], timeout=120)
    if rc != 0:
        raise MachineryError("clang record layout dump failed: " + se[-1000:])
    fields = {}
    cur = None
    for ln in so.splitlines():
        m = re.match(r'\s*0 \| struct (\w+)$', ln)
        if m:
            cur = m.group(1)
            fields.setdefault(cur, [])
            first = not fields[cur]
            continue
        m = re.match(r'\s*(\d+) \|   (\S.*) (\w+)$', ln)      # depth-1 members only (3 spaces after the bar)
        if m and cur and not ln.split("|")[1].startswith("    "):
            if m.group(3) not in [x[0] for x in fields[cur]]:
                fields[cur].append((m.group(3), m.group(2)))
        if "[sizeof=" in ln:
            cur = None
    prog = [inc, "#include <stdio.h>", "#include <stddef.h>", "int main(void){"]
    for rs, cs in MIRROR.items():
        prog.append('printf("S %s %%zu %%zu\\n", sizeof(%s), _Alignof(%s));' % (cs, cs, cs))
        for fn, ty in fields.get(cs, []):
            e = "((%s*)0)->%s" % (cs, fn)
            if ty.endswith("]"):
                prog.append('printf("F %s %s %%zu %%zu A %%zu %%zu %%d\\n", offsetof(%s,%s), sizeof(%s), sizeof(%s)/sizeof(%s[0]), sizeof(%s[0]), __builtin_classify_type(%s[0]));'
                            % (cs, fn, cs, fn, e, e, e, e, e))
            else:
                prog.append('printf("F %s %s %%zu %%zu V 1 %%zu %%d\\n", offsetof(%s,%s), sizeof(%s), sizeof(%s), __builtin_classify_type(%s));' % (cs, fn, cs, fn, e, e, e))
    prog.append("return 0;}")
    pc = os.path.join(scratch(), "cprobe_%d.c" % real)
    with open(pc, "w") as f:
        f.write("\n".join(prog))
    exe = os.path.join(scratch(), "cprobe_%d" % real)
    rc, so, se, _ = run(["gcc", "-std=gnu11", "-w"] + cflags(cfg) + [pc, "-o", exe], timeout=120)
    if rc != 0:
        raise MachineryError("C layout probe does not build: " + se[-1500:])
    rc, so, se, _ = run([exe], timeout=30)
    out = {}
    for ln in so.splitlines():
        p = ln.split()
        if p[0] == "S":
            out[p[1]] = [int(p[2]), int(p[3]), []]
        else:
            cls = {1: "i", 2: "i", 3: "i", 4: "i", 5: "ptr", 8: "f", 12: "struct", 10: "ptr"}.get(int(p[8]), "?%s" % p[8])
            es = int(p[7])
            c = cls + str(es * 8) if cls in ("i", "f") else cls
            if cls == "struct":
                c = "struct(%d bytes)" % es
            if p[5] == "A":
                c = "[%d x %s]" % (int(p[6]), c)
            out[p[1]][2].append((p[2], int(p[3]), int(p[4]), c))
    return out, fields


def rust_layouts(src, structs, real):
    probe = ["\n#[allow(dead_code)] fn verif_sz<T>(_: *const T) -> usize { size_of::<T>() }", "#[allow(dead_code, unused_unsafe)] fn main() { unsafe {"]
    for s, fs in structs.items():
        probe.append('println!("S %s {} {}", size_of::<%s>(), core::mem::align_of::<%s>());' % (s, s, s))
        probe.append("{ let u = core::mem::MaybeUninit::<%s>::uninit(); let p = u.as_ptr();" % s)
        for fn, ty in fs:
            probe.append('println!("F %s %s {} {}", core::mem::offset_of!(%s, %s), verif_sz(core::ptr::addr_of!((*p).%s)));' % (s, fn, s, fn, fn))
        probe.append("}")
    probe.append("} }")
    rs = os.path.join(scratch(), "probe_%d.rs" % real)
    with open(rs, "w") as f:
        f.write(src + "\n".join(probe) + "\n")
    exe = os.path.join(scratch(), "rprobe_%d" % real)
    cmd = [RUSTC, "--edition", "2021", "--crate-type", "bin", "--crate-name", "verif_probe", "-A", "warnings", "--cfg", 'feature="std"', "-C", "panic=abort"]
    if real == 4:
        cmd += ["--cfg", 'feature="float"']
    # the foreign functions are never called by the probe; leave the symbols undefined at link time
    cmd += ["-C", "link-args=-Wl,--unresolved-symbols=ignore-all", rs, "-o", exe]
    rc, so, se, _ = run(cmd, timeout=600, env=dict(os.environ, CARGO_NET_OFFLINE="true"))
    if rc != 0:
        raise MachineryError("rustc failed on the probe crate: " + se[-2500:])
    rc, so, se, _ = run([exe], timeout=30)
    if rc != 0:
        raise MachineryError("rust probe failed to run: " + se[-500:])
    out = {}
    for ln in so.splitlines():
        p = ln.split()
        if p[0] == "S":
            out[p[1]] = [int(p[2]), int(p[3]), {}]
        else:
            out[p[1]][2][p[2]] = (int(p[3]), int(p[4]))
    return out


def main():
    res = Result(PID)
    src = open(os.path.join(REPO, "src", "lib.rs")).read()
    structs = rust_structs(src)
    externs = rust_externs(src)
    solver = z3.Solver()
    nq = 0
    for real in (8, 4):
        cfg = gen_config(real=real)
        tag = "f64" if real == 8 else "f32"
        cl, cfields = c_layouts(cfg, real)
        rl = rust_layouts(src, structs, real)
        # ---------------- structures
        for rs, fs in structs.items():
            cs = MIRROR.get(rs)
            name = "%s/struct/%s" % (tag, rs)
            if cs is None:
                # crcN: Rust-side helper; its table (first field, offset 0) is what the C functions receive
                off, sz = rl[rs][2][fs[0][0]]
                w = int(re.search(r'\d+', rs).group())
                ok = off == 0 and sz == 256 * w // 8 and rust_class(fs[0][1], real * 8, structs) == "[256 x i%d]" % w
                res.ob(name, "holds" if ok else "violated", detail="table at offset %d, %d bytes" % (off, sz))
                if not ok:
                    res.violation("%s:table-layout" % rs, "Rust %s.table is not a [%d-bit; 256] array at offset 0 (%s)" % (rs, w, tag),
                                  replay=res.save_replay("%s_%s.txt" % (rs, tag), "rust: offset %d size %d type %s\n" % (off, sz, fs[0][1])))
                continue
            if cs not in cl:
                res.error("C structure %s not found in the headers" % cs)
                continue
            csize, calign, cf = cl[cs]
            rsize, ralign, rf = rl[rs]
            problems = []
            if csize != rsize:
                problems.append("size C=%d Rust=%d" % (csize, rsize))
            if calign != ralign:
                problems.append("alignment C=%d Rust=%d" % (calign, ralign))
            if len(cf) != len(fs):        # fields are matched by position: names are not part of the ABI
                problems.append("field count C=%d %s Rust=%d %s" % (len(cf), [f[0] for f in cf], len(fs), [f[0] for f in fs]))
            M = z3.BitVec("image_%s_%s" % (rs, tag), 8 * max(csize, rsize, 1))
            for (cn, coff, csz, ccls), (rn, rty) in zip(cf, fs):
                roff, rsz = rf[rn]
                rcls = rust_class(rty, real * 8, structs)
                # "for all byte images M, the C read of the field equals the Rust read of the field"
                if csz != rsz:
                    problems.append("field %s: width C=%d Rust=%d" % (cn, csz, rsz))
                    continue
                a = z3.Extract(8 * (coff + csz) - 1, 8 * coff, M)
                b = z3.Extract(8 * (roff + rsz) - 1, 8 * roff, M)
                solver.push()
                solver.add(a != b)
                r = solver.check()
                nq += 1
                if r == z3.sat:
                    m = solver.model()
                    problems.append("field %s: offset C=%d Rust=%d; byte image %#x is read differently" % (cn, coff, roff, m.eval(M, model_completion=True).as_long()))
                elif r != z3.unsat:
                    res.error("solver unknown on %s.%s" % (rs, cn))
                solver.pop()
                # machine type class
                cc = ccls
                rc_ = rcls
                if rc_.startswith("struct "):
                    rc_ = "struct(%d bytes)" % rl[rc_[7:]][0]
                rc_ = re.sub(r'struct (\w+)', lambda mm: "struct(%d bytes)" % rl[mm.group(1)][0], rc_)
                if cc != rc_:
                    problems.append("field %s: machine type C=%s Rust=%s" % (cn, cc, rc_))
            # a field that carries the same name on both sides designates the same datum: it must be the same bytes of every image
            # (fields named differently are matched by position only - names are not part of the ABI)
            cby = {cn: (coff, csz) for cn, coff, csz, _ in cf}
            for rn, rty in fs:
                if rn in cby and rn in rf and cby[rn][1] == rf[rn][1]:
                    coff, csz = cby[rn]
                    roff, rsz = rf[rn]
                    solver.push()
                    solver.add(z3.Extract(8 * (coff + csz) - 1, 8 * coff, M) != z3.Extract(8 * (roff + rsz) - 1, 8 * roff, M))
                    r = solver.check()
                    nq += 1
                    if r == z3.sat:
                        msg = "field %s: same name at offset C=%d Rust=%d; byte image %#x is read differently" % (rn, coff, roff, solver.model().eval(M, model_completion=True).as_long())
                        if not any(q.startswith("field %s:" % rn) for q in problems):
                            problems.append(msg)
                    elif r != z3.unsat:
                        res.error("solver unknown on %s.%s (by name)" % (rs, rn))
                    solver.pop()
            if problems:
                rp = res.save_replay("%s_%s.txt" % (rs, tag), "C (%s, gcc/clang from current headers): size %d align %d fields %s\nRust (rustc from current src/lib.rs): size %d align %d fields %s\n%s\n"
                                     % (cs, csize, calign, cf, rsize, ralign, [(n, rf[n]) for n, _ in fs if n in rf], "\n".join(problems)))
                res.ob(name, "violated", problems=problems)
                res.violation("%s:%s" % (rs, problems[0].split(":")[0].replace(" ", "-")), "%s vs %s (%s): %s" % (rs, cs, tag, "; ".join(problems)[:300]), replay=rp)
            else:
                res.ob(name, "holds", size=csize, align=calign, fields=len(fs))
                if len(res.samples) < 4:
                    res.samples.append({"struct": rs, "real": tag, "size": csize, "fields": [(n, o, s_, c) for n, o, s_, c in cf]})
        # ---------------- foreign functions: prototypes from the IR of the library sources
        names = sorted(f for f in os.listdir(os.path.join(REPO, "src")) if f.endswith(".c"))
        mods = build.load_modules(cfg, names, bodies=False)
        cfun = {}
        for m in mods:
            cfun.update(m.funcs)
        for fn, (params, ret) in sorted(externs.items()):
            name = "%s/fn/%s" % (tag, fn)
            f = cfun.get(fn)
            if f is None:
                res.ob(name, "violated")
                res.violation("%s:missing" % fn, "foreign function %s is declared in src/lib.rs but not defined by the library (%s)" % (fn, tag),
                              replay=res.save_replay("%s_%s.txt" % (fn, tag), "not defined in src/*.c\n"))
                continue
            cp = [c_class(t) for t, _ in f.params]
            cr = c_class(f.ret)
            rp_ = [rust_class(t, real * 8, structs) for t in params]
            rr = rust_class(ret, real * 8, structs)
            # complex numbers and other by-value aggregates do not occur in the binding; a by-value struct would show as 'struct'
            problems = []
            if len(cp) != len(rp_):
                problems.append("arity C=%d Rust=%d" % (len(cp), len(rp_)))
            else:
                for i, (a, b) in enumerate(zip(cp, rp_)):
                    if a != b:
                        problems.append("parameter %d: C=%s Rust=%s" % (i, a, b))
            if cr != rr:
                problems.append("return: C=%s Rust=%s" % (cr, rr))
            if f.vararg:
                problems.append("C function is variadic")
            if problems:
                rpath = res.save_replay("%s_%s.txt" % (fn, tag), "C: %s(%s) -> %s\nRust: (%s) -> %s\n%s\n" % (fn, cp, cr, rp_, rr, "\n".join(problems)))
                res.ob(name, "violated", problems=problems)
                res.violation("%s:%s" % (fn, problems[0].split(":")[0].replace(" ", "-")), "%s (%s): %s" % (fn, tag, "; ".join(problems)[:300]), replay=rpath)
            else:
                res.ob(name, "holds", params=cp, ret=cr)
    res.queries = nq
    res.functions.update(["every #[repr(C)] struct and every extern \"C\" fn of src/lib.rs", "C side: %s" % ", ".join(HEADERS), "src/*.c (prototypes from clang IR)"])
    res.bounds = {"targets": "x86-64 SysV, both real widths (f64 default, f32 feature / A_SIZE_REAL=4)",
                  "structures": "%d mirrored structures + 4 CRC table holders" % len(MIRROR), "functions": "%d foreign declarations" % len(externs)}
    res.outside = ["other targets", "the Java/Lua/Python/JS bindings", "signedness of integer parameters (width and class are compared)", "long double"]
    res.assumptions = ["layouts are computed by gcc/clang and rustc from the current sources on every run; z3 decides 'every byte image is read identically' per field (the queries are trivial, the work is the extraction)"]
    res.extra["rule"] = "one obligation per mirrored structure and per foreign function and real width; non-trivial = decided by z3 field queries / prototype comparison from compiler output"
    return res.finish()


if __name__ == "__main__":
    sys.exit(main())
