"""C16: transfer function and RC filters — E2 (llsym, exact-real domain), DESIGN.md 4/C16."""
import os, sys, itertools
from fractions import Fraction
from vcommon import *
import e2
sys.path.insert(0, os.path.join(VERIF, "harness", "llsym"))
import core, z3
from replay import Tr
from realcheck import *

PID = "C16"
TU = os.path.join(VERIF, "harness", "tu", "filters_tu.c")
ZERO, ONE = Fraction(0), Fraction(1)


class TF:
    def __init__(self, ex, tr, nn, dn, num, den, tag):
        self.ex, self.tr, self.nn, self.dn = ex, tr, nn, dn
        self.ctx = tr.alloc(40, tag + "_tf")
        self.num = Arr(ex, tr, nn, tag + "_num", init=num)
        self.den = Arr(ex, tr, dn, tag + "_den", init=den)
        # delay lines: exact-size objects pre-filled with junk that init must clear
        self.inp = Arr(ex, tr, nn, tag + "_in")
        self.out = Arr(ex, tr, dn, tag + "_out")
        tr.call("a_tf_init", self.ctx, nn, self.num.addr, self.inp.addr, dn, self.den.addr, self.out.addr, ret="void")

    def iter(self, x):
        return self.tr.call("a_tf_iter", self.ctx, x, ret="f64")


def reference(b, a, us):
    ys = []
    for k in range(len(us)):
        y = ZERO
        for i in range(len(b)):
            if k - i >= 0:
                y = add(y, mul(b[i], us[k - i]))
        for j in range(len(a)):
            if k - 1 - j >= 0:
                y = sub(y, mul(a[j], ys[k - 1 - j]))
        ys.append(y)
    return ys


def tf_harness(nn, dn, clause, K):
    def h(ex):
        tr = Tr(ex, "")
        set_mode(ex)
        ex.path_tags = ["tf", "num=%d den=%d" % (nn, dn), clause]
        b = [ex.fresh_real("b%d" % i) for i in range(nn)]
        a = [ex.fresh_real("a%d" % i) for i in range(dn)]
        us = [ex.fresh_real("u%d" % k) for k in range(K)]
        t1 = TF(ex, tr, nn, dn, b, a, "p")
        ys = [t1.iter(u) for u in us]
        exp = reference(b, a, us)
        if clause == "equation":
            for k in range(K):
                ex.check(req(ys[k], exp[k]), "tf:output-is-not-the-difference-equation", "step %d" % k)
            # delay lines hold the most recent inputs / outputs, newest first
            for i, v in enumerate(t1.inp.get()):
                ex.check(req(v, us[K - 1 - i] if K - 1 - i >= 0 else ZERO), "tf:input-delay-line", "slot %d" % i)
            for i, v in enumerate(t1.out.get()):
                ex.check(req(v, ys[K - 1 - i] if K - 1 - i >= 0 else ZERO), "tf:output-delay-line", "slot %d" % i)
            for g, e in zip(t1.num.get() + t1.den.get(), b + a):
                ex.check(req(g, e), "tf:coefficients-modified")
        elif clause == "linear":
            ws = [ex.fresh_real("w%d" % k) for k in range(K)]
            al, be = ex.fresh_real("alpha"), ex.fresh_real("beta")
            t2 = TF(ex, tr, nn, dn, b, a, "q")
            t3 = TF(ex, tr, nn, dn, b, a, "r")
            yw = [t2.iter(w) for w in ws]
            yc = [t3.iter(add(mul(al, u), mul(be, w))) for u, w in zip(us, ws)]
            for k in range(K):
                ex.check(req(yc[k], add(mul(al, ys[k]), mul(be, yw[k]))), "tf:not-linear", "step %d" % k)
        elif clause == "shift":
            t2 = TF(ex, tr, nn, dn, b, a, "q")
            yd = [t2.iter(u) for u in [ZERO] + us[:-1]]
            ex.check(req(yd[0], ZERO), "tf:zero-input-from-zero-state-gives-non-zero-output")
            for k in range(1, K):
                ex.check(req(yd[k], ys[k - 1]), "tf:not-time-invariant", "step %d" % k)
        elif clause == "zero":
            tr.call("a_tf_zero", t1.ctx, ret="void")
            vs = [ex.fresh_real("v%d" % k) for k in range(K)]
            again = [t1.iter(v) for v in vs]
            fresh = reference(b, a, vs)
            for k in range(K):
                ex.check(req(again[k], fresh[k]), "tf:zeroing-does-not-restore-the-initial-state", "step %d" % k)
    return h


def rc_harness(kind, clause, K):
    def h(ex):
        tr = Tr(ex, "")
        set_mode(ex)
        ex.path_tags = [kind, clause]
        if clause == "gen":
            fc, ts = ex.fresh_real("fc"), ex.fresh_real("ts")
            ex.assume(conj([rlt(ZERO, fc), rlt(ZERO, ts)]))
            al = tr.call("w_%s_gen" % kind, fc, ts, ret="f64")
            ex.check(conj([rlt(ZERO, al), rlt(al, ONE)]), "%s_gen:coefficient-not-strictly-inside-(0,1)" % kind)
            if kind == "lpf":   # alpha = ts / (RC + ts), RC = 1/(2 pi fc): increasing in fc and ts
                fc2 = ex.fresh_real("fc2")
                ex.assume(rlt(fc, fc2))
                ex.check(rlt(al, tr.call("w_lpf_gen", fc2, ts, ret="f64")), "lpf_gen:not-increasing-in-the-cut-off-frequency")
            else:
                fc2 = ex.fresh_real("fc2")
                ex.assume(rlt(fc, fc2))
                ex.check(rlt(tr.call("w_hpf_gen", fc2, ts, ret="f64"), al), "hpf_gen:not-decreasing-in-the-cut-off-frequency")
            return
        alpha = ex.fresh_real("alpha")
        ex.assume(conj([rle(ZERO, alpha), rle(alpha, ONE)]))
        ctx = tr.alloc(16 if kind == "lpf" else 24, "ctx")
        tr.call("w_%s_init" % kind, ctx, alpha, ret="void")
        xs = [ex.fresh_real("x%d" % k) for k in range(K)]
        if kind == "lpf":
            out = ZERO
            lo = hi = ZERO                      # range of the values fed so far (and the initial output 0)
            for k, x in enumerate(xs):
                y = tr.call("w_lpf_iter", ctx, x, ret="f64")
                ex.check(req(y, add(mul(sub(ONE, alpha), out), mul(alpha, x))), "lpf:not-the-convex-combination", "step %d" % k)
                lo = x if k == 0 and False else rmin(lo, x)
                hi = rmax(hi, x)
                ex.check(conj([rle(lo, y), rle(y, hi)]), "lpf:output-leaves-the-range-of-the-inputs-so-far", "step %d" % k)
                ex.check(conj([rle(rmin(out, x), y), rle(y, rmax(out, x))]), "lpf:output-not-between-previous-output-and-input", "step %d" % k)
                out = y
            if clause == "settle":
                c = ex.fresh_real("c")
                prev = out
                for k in range(2):
                    y = tr.call("w_lpf_iter", ctx, c, ret="f64")
                    ex.check(req(rabs(sub(y, c)), mul(sub(ONE, alpha), rabs(sub(prev, c)))), "lpf:distance-to-a-constant-input-does-not-shrink-by-(1-alpha)", "step %d" % k)
                    prev = y
                # constant input is a fixed point
                tr.call("w_lpf_zero", ctx, ret="void")
                ex.check(req(ex.load(ctx + 8, F64), ZERO), "lpf:zero-does-not-clear-the-output")
        else:
            out, inp = ZERO, ZERO
            for k, x in enumerate(xs):
                y = tr.call("w_hpf_iter", ctx, x, ret="f64")
                ex.check(req(y, mul(alpha, add(out, sub(x, inp)))), "hpf:not-alpha*(out+x-previous-input)", "step %d" % k)
                out, inp = y, x
            if clause == "settle":
                c = xs[-1] if xs else ZERO
                prev = out
                for k in range(2):
                    y = tr.call("w_hpf_iter", ctx, c, ret="f64")
                    ex.check(req(y, mul(alpha, prev)), "hpf:constant-input-output-is-not-alpha*previous", "step %d" % k)
                    ex.check(rle(rabs(y), rabs(prev)), "hpf:output-grows-for-a-constant-input", "step %d" % k)
                    prev = y
                tr.call("w_hpf_zero", ctx, ret="void")
                ex.check(conj([req(ex.load(ctx + 8, F64), ZERO), req(ex.load(ctx + 16, F64), ZERO)]), "hpf:zero-does-not-clear-the-state")
    return h


def rmin(a, b):
    if isinstance(a, (Fraction, int)) and isinstance(b, (Fraction, int)):
        return min(Fraction(a), Fraction(b))
    return z3.If(R(a) <= R(b), R(a), R(b))


def rmax(a, b):
    if isinstance(a, (Fraction, int)) and isinstance(b, (Fraction, int)):
        return max(Fraction(a), Fraction(b))
    return z3.If(R(a) >= R(b), R(a), R(b))


def builder(p):
    if p[0] == "tf":
        return "tf/num%d-den%d/%s" % (p[1], p[2], p[3]), tf_harness(p[1], p[2], p[3], p[4])
    return "%s/%s" % (p[0], p[1]), rc_harness(p[0], p[1], p[2])


def main():
    cfg = gen_config()
    res = Result(PID)
    T = tier()
    O, K = (3, 4) if T == "quick" else (5, 8)
    inst = []
    for nn, dn in itertools.product(range(0, O + 1), repeat=2):
        for cl in ("equation", "linear", "shift", "zero"):
            inst.append(("tf", nn, dn, cl, K))
    for kind in ("lpf", "hpf"):
        inst += [(kind, "gen", 0), (kind, "iterate", 3), (kind, "settle", 2)]
    res.functions.update(["a_tf_init", "a_tf_set_num", "a_tf_set_den", "a_tf_iter", "a_tf_zero", "a_real_push_fore", "a_lpf_gen", "a_lpf_init", "a_lpf_iter", "a_lpf_zero",
                          "a_hpf_gen", "a_hpf_init", "a_hpf_iter", "a_hpf_zero"])
    res.bounds = {"transfer function": "numerator and denominator orders 0..%d, %d steps from zero state, all coefficients and inputs symbolic reals; delay lines are exact-size objects" % (O, K),
                  "RC filters": "alpha in [0,1] symbolic, 3 symbolic inputs then a constant input; generators for all positive real fc, ts"}
    res.outside = ["orders and step counts above the bound", "IEEE rounding: in floating point the convexity bound can be exceeded by an ulp and the generators saturate at 0/1 for extreme fc*ts; the claim is the real one",
                   "the bit-precise clause 'strictly inside (0,1) for 1e-12 <= fc*ts <= 1e12' (IEEE) is not decided by this check"]
    res.assumptions = ["floats treated as reals by design (difference equations, linearity, time invariance are statements about the formula)"]
    srcs = ["tf.c", "math.c", "a.c"]
    e2.run_e2(res, cfg, srcs, inst, builder, wrappers=[TU], group="filters", validate_every=7, tol=1e-6, exec_attrs={"force_solver": True}, exec_opts={"solver": "nra"},
              replay_srcs=repo_sources(srcs) + [TU], time_budget=300 if T == "quick" else 2000)
    e2.finish_coverage(res, must_cover=["a_tf_iter", "a_tf_zero", "w_lpf_iter", "w_hpf_iter", "w_lpf_gen", "w_hpf_gen", "a_real_push_fore"], report_funcs=None)
    return res.finish()


if __name__ == "__main__":
    sys.exit(main())
