"""C12: PID controllers — E1 (CBMC, bit-precise one step from an arbitrary state) + E2 (llsym, exact-real
domain, K steps; fuzzy controller), DESIGN.md 4/C12."""
import os, sys, itertools
from fractions import Fraction
from vcommon import *
import e2
from e1 import H, run_e1, replay_file
sys.path.insert(0, os.path.join(VERIF, "harness", "llsym"))
import core, z3
from replay import Tr
from realcheck import *
import fuzzyctl
from fuzzyctl import PID_F, set_pid, get_pid, FuzzyCtl, OFF

PID = "C12"
F = os.path.join(VERIF, "harness", "C12", "c12.c")
ZERO = Fraction(0)
E1_FUNCS = ["run_range", "run_finite", "run_keep", "run_value", "pos_range", "pos_finite", "pos_keep", "pos_clamp", "pos_increment",
            "inc_range", "inc_finite", "inc_keep", "inc_keepsum", "pid_zero", "neuro_run_range", "neuro_run_value", "neuro_inc_range",
            "neuro_inc_finite", "neuro_inc_keep", "neuro_weights", "neuro_zero"]


def sat(x, lo, hi):
    return z3.If(R(lo) < R(x), z3.If(R(x) < R(hi), R(x), R(hi)), R(lo))


def limits(ex):
    outmin, outmax, summin, summax = [ex.fresh_real(n) for n in ("outmin", "outmax", "summin", "summax")]
    ex.assume(conj([rle(outmin, outmax), rle(summin, ZERO), rle(ZERO, summax)]))
    return outmin, outmax, summin, summax


def pid_harness(clause, K):
    def h(ex):
        tr = Tr(ex, "")
        set_mode(ex)
        ex.path_tags = ["pid", clause]
        kp, ki, kd = [ex.fresh_real(n) for n in ("kp", "ki", "kd")]
        ex.assume(rle(ZERO, ki))
        outmin, outmax, summin, summax = limits(ex)
        cfgv = dict(kp=kp, ki=ki, kd=kd, outmin=outmin, outmax=outmax, summin=summin, summax=summax)
        sets = [ex.fresh_real("set%d" % k) for k in range(K)]
        fdbs = [ex.fresh_real("fdb%d" % k) for k in range(K)]
        if clause == "equations":
            # positional and incremental controllers from the zero state, same inputs, no limit active
            p = tr.alloc(96, "pos")
            q = tr.alloc(96, "inc")
            set_pid(ex, tr, p, cfgv)
            set_pid(ex, tr, q, cfgv)
            tr.call("a_pid_zero", p, ret="void")
            tr.call("a_pid_zero", q, ret="void")
            esum, prev_fdb = ZERO, ZERO
            for k in range(K):
                # the integrator is strictly inside its limits before the step as well (sum == summin counts as a limit being active)
                ex.assume(conj([rlt(summin, esum), rlt(esum, summax)]))
                err = sub(sets[k], fdbs[k])
                esum = add(esum, mul(ki, err))
                var = sub(prev_fdb, fdbs[k])
                raw = add(add(mul(kp, err), esum), mul(kd, var))
                # "for as long as no limit is active"
                ex.assume(conj([rlt(summin, esum), rlt(esum, summax), rlt(outmin, raw), rlt(raw, outmax)]))
                yp = tr.call("a_pid_pos", p, sets[k], fdbs[k], ret="f64")
                yi = tr.call("a_pid_inc", q, sets[k], fdbs[k], ret="f64")
                ex.check(req(yp, raw), "pid_pos:output-is-not-the-positional-difference-equation", "step %d" % k)
                ex.check(req(yi, yp), "pid:positional-and-incremental-outputs-differ-while-no-limit-is-active", "step %d" % k)
                ex.check(req(get_pid(ex, p)["sum"], esum), "pid_pos:integrator-is-not-ki-times-the-error-sum", "step %d" % k)
                prev_fdb = fdbs[k]
        elif clause == "limits":
            # arbitrary (real) state, one step of each mode: output inside the limits, integrator clauses
            st = dict(cfgv)
            for n in ("sum", "out", "var", "fdb", "err"):
                st[n] = ex.fresh_real("st_" + n)
            for mode in ("run", "pos", "inc"):
                p = tr.alloc(96, mode)
                set_pid(ex, tr, p, st)
                y = tr.call("a_pid_" + mode, p, sets[0], fdbs[0], ret="f64")
                after = get_pid(ex, p)
                ex.check(conj([rle(outmin, y), rle(y, outmax)]), "pid_%s:output-outside-the-output-limits" % mode)
                ex.check(req(y, after["out"]), "pid_%s:returned-value-is-not-the-stored-output" % mode)
                err = sub(sets[0], fdbs[0])
                if mode == "run":
                    ex.check(req(y, sat(sets[0], outmin, outmax)), "pid_run:output-is-not-the-saturated-set-point")
                if mode == "pos":
                    ex.check(z3.Implies(R(st["sum"]) >= R(summax), R(after["sum"]) <= R(st["sum"])), "pid_pos:integrator-moves-further-beyond-its-upper-clamp")
                    ex.check(z3.Implies(R(st["sum"]) <= R(summin), R(after["sum"]) >= R(st["sum"])), "pid_pos:integrator-moves-further-beyond-its-lower-clamp")
                    ex.check(disj([req(after["sum"], st["sum"]), req(after["sum"], add(st["sum"], mul(ki, err)))]), "pid_pos:integrator-moved-by-something-else-than-one-increment")
                    ex.check(req(y, sat(add(add(mul(kp, err), after["sum"]), mul(kd, sub(st["fdb"], fdbs[0]))), outmin, outmax)), "pid_pos:output-is-not-the-saturated-positional-equation")
                if mode == "inc":
                    raw = add(st["out"], add(add(mul(kp, sub(err, st["err"])), mul(ki, err)), mul(kd, sub(sub(st["fdb"], fdbs[0]), st["var"]))))
                    ex.check(req(y, sat(raw, outmin, outmax)), "pid_inc:output-is-not-the-saturated-incremental-equation")
                ex.check(conj([req(after["err"], err), req(after["fdb"], fdbs[0]), req(after["var"], sub(st["fdb"], fdbs[0]))]), "pid_%s:cached-error-feedback-variation" % mode)
        elif clause == "zero":
            p = tr.alloc(96, "used")
            q = tr.alloc(96, "fresh")
            st = dict(cfgv)
            for n in ("sum", "out", "var", "fdb", "err"):
                st[n] = ex.fresh_real("st_" + n)
            set_pid(ex, tr, p, st)
            tr.call("a_pid_zero", p, ret="void")
            fresh = dict(cfgv)
            set_pid(ex, tr, q, fresh)
            mode = ex.pick(["pos", "inc", "run"], "mode")
            for k in range(K):
                y1 = tr.call("a_pid_" + mode, p, sets[k], fdbs[k], ret="f64")
                y2 = tr.call("a_pid_" + mode, q, sets[k], fdbs[k], ret="f64")
                ex.check(req(y1, y2), "pid_zero:zeroed-controller-differs-from-a-freshly-initialised-one", "step %d mode %s" % (k, mode))
    return h


def fuzzy_harness(nrule, opr, shapes, mode, K):
    def h(ex):
        tr = Tr(ex, "")
        set_mode(ex)
        fuzzyctl.install_math(ex)
        fuzzyctl.equ_contract(ex)
        ex.path_tags = ["pid_fuzzy", "order %d" % nrule, opr, "+".join(shapes), mode]
        c = FuzzyCtl(ex, tr, nrule, nrule, opr, shapes)
        outmin, outmax, summin, summax = limits(ex)
        for n, v in (("outmin", outmin), ("outmax", outmax), ("summin", summin), ("summax", summax)):
            tr.store(c.ctx + 8 * PID_F.index(n), v, 8, isfloat=True)
        ex.assume(rle(ZERO, c.base["ki"]))
        # consequents chosen so that the scheduled integral gain stays non-negative (the property's ki >= 0)
        for v in c.tabs["mki"].v:
            ex.assume(rle(ZERO, v))
        for k in range(K):
            s, f = ex.fresh_real("set%d" % k), ex.fresh_real("fdb%d" % k)
            y = tr.call("a_pid_fuzzy_" + mode, c.ctx, s, f, ret="f64")
            ex.check(conj([rle(outmin, y), rle(y, outmax)]), "pid_fuzzy_%s:output-outside-the-output-limits" % mode, "step %d" % k)
            st = get_pid(ex, c.ctx)
            ex.check(req(y, st["out"]), "pid_fuzzy_%s:returned-value-is-not-the-stored-output" % mode)
            ex.check(rle(ZERO, st["ki"]), "pid_fuzzy:scheduled-integral-gain-negative")
    return h


def builder(p):
    if p[0] == "pid":
        return "pid/" + p[1], pid_harness(p[1], p[2])
    return "fuzzy/order%d/%s/%s/%s%s" % (p[1], p[2], "+".join(p[3]), p[4], "" if p[5] == 1 else "/steps%d" % p[5]), fuzzy_harness(p[1], p[2], p[3], p[4], p[5])


def main():
    cfg = gen_config()
    if os.environ.get("VERIF_REPLAY") and os.environ["VERIF_REPLAY"].endswith(".json"):
        return replay_file(cfg, os.environ["VERIF_REPLAY"])
    res = Result(PID)
    T = tier()
    # ---- E1: bit-precise single step from an arbitrary state, double and float builds
    hs = []
    for real, tag in ((8, "double"), (4, "float")):
        for fn in E1_FUNCS:
            hs.append(H("e1/%s/%s" % (tag, fn), F, "h_" + fn, ["pid.c", "pid_neuro.c"], defs=("A_SIZE_REAL=%d" % real,), unwind=2,
                        timeout=600 if T == "quick" else 3000, backends=("kissat", "cadical")))
    run_e1(res, cfg, hs, default_timeout=600)
    # ---- E2: exact-real domain
    K = 3 if T == "quick" else 4
    inst = [("pid", "equations", K), ("pid", "limits", 1), ("pid", "zero", K)]
    deep = []           # thorough only, attempted with a per-instance budget; what does not finish is listed as dropped
    orders = [(2, ("tri", "tri")), (2, ("trap", "tri"))] + ([(3, ("tri", "trap", "tri"))] if T == "thorough" else [])
    for nrule, shapes in orders:
        for opr in fuzzyctl.OPRS:
            for mode in ("pos", "inc", "run"):
                core_inst = (mode == "pos" and shapes == ("tri", "tri")) or (opr == "cap" and shapes == ("tri", "tri"))
                if core_inst:
                    inst.append(("fuzzy", nrule, opr, shapes, mode, 1))
                if T == "thorough":
                    if not core_inst:
                        deep.append(("fuzzy", nrule, opr, shapes, mode, 1))
                    deep.append(("fuzzy", nrule, opr, shapes, mode, 2))
    srcs = ["pid.c", "pid_neuro.c", "pid_fuzzy.c", "mf.c", "fuzzy.c", "math.c", "a.c"]
    e2.run_e2(res, cfg, srcs, inst, builder, group="real", validate_every=5, tol=1e-6, exec_attrs={"force_solver": True}, exec_opts={"solver": "nra"},
              time_budget=400 if T == "quick" else 3000, sigmap=lambda n: "/".join(n.split("/")[:3]) if n.startswith("fuzzy") else n)
    if deep:
        # measured: the full thorough list (63 two-step instances with a 3000 s budget each) had not finished after 2 h 20 min
        e2.run_e2(res, cfg, srcs, deep, builder, group="real-deep", validate_every=7, tol=1e-6, exec_attrs={"force_solver": True}, exec_opts={"solver": "nra"},
                  time_budget=600, sigmap=lambda n: "/".join(n.split("/")[:3]) if n.startswith("fuzzy") else n, droppable=True)
    res.functions.update(["a_pid_run", "a_pid_pos", "a_pid_inc", "a_pid_run_", "a_pid_pos_", "a_pid_inc_", "a_pid_zero", "a_pid_set_kpid", "a_pid_neuro_run", "a_pid_neuro_inc",
                          "a_pid_neuro_zero", "a_pid_fuzzy_run", "a_pid_fuzzy_pos", "a_pid_fuzzy_inc", "a_pid_fuzzy_out_", "a_pid_fuzzy_mf", "a_pid_fuzzy_set_opr",
                          "a_pid_fuzzy_set_bfuzz", "a_pid_fuzzy_set_kpid", "a_fuzzy_*", "a_mf_tri", "a_mf_trap"])
    res.bounds = {"E1 (bit-precise, IEEE double and float)": "ONE step of run/pos/inc and of the single-neuron controller from an arbitrary state: every field, gain, limit and input an arbitrary finite value with |v| <= 1e30 (1e9 for float), outmin <= outmax, summin <= 0 <= summax, ki >= 0; one clause per harness",
                  "E2 (exact reals)": "%d steps from the zero state with symbolic gains/limits/inputs (difference equations, pos = inc while no limit is active, zeroing); one step from an arbitrary real state (saturated equations, integrator clauses); fuzzy controller of order 2 (thorough: 3) over triangular/trapezoid sets with symbolic ordered parameters and consequents, all seven operators, one step%s" % (K, "; thorough: every operator/mode/shape combination with one and two steps as a separate group with a 600 s budget per instance (unfinished ones are listed under dropped_from_claim)" if T == "thorough" else "")}
    res.outside = ["rule bases of order above 3, smooth membership families inside the controller (their range is C13)", "magnitudes beyond 1e30 (intermediate overflow)",
                   "bit-precise equality with the difference equations (two independent floating-point multiplier circuits do not finish in SAT; decided in the reals instead)"]
    res.stubs = ["a_fuzzy_equ inside the controller: replaced by its contract (value in [0,1], zero iff a*b == 0), which C13 proves"]
    res.assumptions = ["E1: CBMC IEEE-754 semantics, round-to-nearest", "E2: floats as reals; sqrt(x) = y >= 0 with y*y = x; pow(u, 2) = u*u"]
    e2.finish_coverage(res, must_cover=["a_pid_pos_", "a_pid_inc_", "a_pid_fuzzy_out_", "a_pid_fuzzy_mf"], report_funcs=None)
    return res.finish()


if __name__ == "__main__":
    sys.exit(main())
