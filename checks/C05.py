"""C05: intrusive lists and the queue — E2 (llsym, bit-vector domain), DESIGN.md section 4/C05."""
import os, sys, itertools
from vcommon import *
import e2
sys.path.insert(0, os.path.join(VERIF, "harness", "llsym"))
import core, z3
from core import bv, is_sym
from replay import Tr
from fault import succeeded, failed_now, OpFailed
from seqcheck import beq, conj, disj, ule, elems_eq, eq64

PID = "C05"
TU1 = os.path.join(VERIF, "harness", "tu", "lists_tu.c")
TU2 = os.path.join(VERIF, "harness", "tu", "seq_tu.c")
I64, I8 = core.ir.int_t(64), core.ir.int_t(8)

PRELUDE = """
static int cmp_b0(void const *a, void const *b) { unsigned char x = *(unsigned char const *)a, y = *(unsigned char const *)b; return (x > y) - (x < y); }
"""


# ------------------------------------------------------------------ doubly linked ring
class Ring:
    def __init__(self, ex, tr, n, tag):
        self.ex, self.tr = ex, tr
        self.head = tr.alloc(16, tag + "_head")
        self.nodes = [tr.alloc(16, "%s%d" % (tag, i)) for i in range(n)]
        seq = [self.head] + self.nodes
        for i, a in enumerate(seq):
            tr.store(a, seq[(i + 1) % len(seq)], 8)
            tr.store(a + 8, seq[i - 1], 8)
        self.model = list(self.nodes)     # after head, in next-direction

    def check(self, what, model=None, head=None):
        ex = self.ex
        model = self.model if model is None else model
        head = self.head if head is None else head
        seq = [head] + list(model)
        cur = head
        walked = []
        for _ in range(len(seq) + 2):
            nx = ex.load(cur, I64)
            ex.check(isinstance(nx, int), what + ":symbolic-link")
            back = ex.load(nx + 8, I64) if ex.obj_at(nx) is not None else None
            ex.check(back == cur, what + ":next-prev-links-disagree", "at %#x: next=%#x, next->prev=%s" % (cur, nx, hex(back) if isinstance(back, int) else back))
            pv = ex.load(cur + 8, I64)
            fwd = ex.load(pv, I64) if isinstance(pv, int) and ex.obj_at(pv) is not None else None
            ex.check(fwd == cur, what + ":prev-next-links-disagree", "at %#x" % cur)
            walked.append(cur)
            cur = nx
            if cur == head:
                break
        ex.check(walked == seq, what + ":reachable-nodes-differ-from-model",
                 "walked %s expected %s" % ([hex(x) for x in walked], [hex(x) for x in seq]))


def list_harness(op, n, m):
    def h(ex):
        tr = Tr(ex, PRELUDE)
        ex.path_tags = ["list", op, "n=%d m=%d" % (n, m)]
        r = Ring(ex, tr, n, "a")
        call = lambda f, *a: tr.call("w_list_" + f, *a, ret="void")
        if op in ("add_next", "add_prev", "add_node"):
            node = tr.alloc(16, "new")
            tr.store(node, ex.fresh_bv("junk", 64), 8)
            tr.store(node + 8, ex.fresh_bv("junk", 64), 8)
            seq = [r.head] + r.model
            i = ex.pick(list(range(len(seq))), "at")
            if op == "add_next":
                call("add_next", seq[i], node)
                seq.insert(i + 1, node)
            elif op == "add_prev":
                call("add_prev", seq[i], node)
                seq.insert(i, node) if i else seq.append(node)
            else:   # between tail=seq[i] and head=its successor
                call("add_node", seq[(i + 1) % len(seq)], seq[i], node)
                seq.insert(i + 1, node)
            r.check(op, seq[1:])
        elif op in ("del_node", "del_next", "del_prev"):
            if not r.model:
                raise core.Infeasible()
            seq = [r.head] + r.model
            if op == "del_node":
                i = ex.pick(list(range(1, len(seq))), "victim")
                call("del_node", seq[i])
                gone = seq.pop(i)
            elif op == "del_next":
                i = ex.pick(list(range(len(seq))), "at")
                j = (i + 1) % len(seq)
                if j == 0:
                    raise core.Infeasible()    # deleting the head sentinel is not a list operation
                call("del_next", seq[i])
                gone = seq.pop(j)
            else:
                i = ex.pick(list(range(len(seq))), "at")
                j = (i - 1) % len(seq)
                if j == 0:
                    raise core.Infeasible()
                call("del_prev", seq[i])
                gone = seq.pop(j)
            r.check(op, seq[1:])
        elif op == "del_section":
            if not r.model:
                raise core.Infeasible()
            i = ex.pick(list(range(len(r.model))), "sec_head")
            j = ex.pick(list(range(i, len(r.model))), "sec_tail")
            call("del_", r.model[i], r.model[j])
            sec = r.model[i:j + 1]
            r.check(op, r.model[:i] + r.model[j + 1:])
            # the removed section can be re-inserted elsewhere (its inner links are intact)
            call("add_", r.head, ex.load(r.head + 8, I64), sec[0], sec[-1])
            r.check(op + "+re-add", r.model[:i] + r.model[j + 1:] + sec)
        elif op in ("set_node", "set_section"):
            if not r.model:
                raise core.Infeasible()
            if op == "set_node":
                i = ex.pick(list(range(len(r.model))), "victim")
                new = tr.alloc(16, "new")
                call("set_node", r.model[i], new)
                r.check(op, r.model[:i] + [new] + r.model[i + 1:])
            else:
                i = ex.pick(list(range(len(r.model))), "sec_head")
                j = ex.pick(list(range(i, len(r.model))), "sec_tail")
                k = ex.pick([1, 2], "newlen")
                new = [tr.alloc(16, "new%d" % q) for q in range(k)]
                for q in range(k - 1):
                    tr.store(new[q], new[q + 1], 8)
                    tr.store(new[q + 1] + 8, new[q], 8)
                call("set_", r.model[i], r.model[j], new[0], new[-1])
                r.check(op, r.model[:i] + new + r.model[j + 1:])
        elif op in ("mov_next", "mov_prev"):
            if m == 0:
                raise core.Infeasible()       # moving an empty list is outside the documented use
            r2 = Ring(ex, tr, m, "b")
            seq = [r.head] + r.model
            i = ex.pick(list(range(len(seq))), "at")
            call(op, seq[i], r2.head)
            if op == "mov_next":
                seq[i + 1:i + 1] = r2.model
            else:
                if i:
                    seq[i:i] = r2.model
                else:
                    seq += r2.model
            r.check(op, seq[1:])
        elif op in ("rot_next", "rot_prev"):
            call(op, r.head)
            if r.model:
                mdl = [r.model[-1]] + r.model[:-1] if op == "rot_next" else r.model[1:] + [r.model[0]]
            else:
                mdl = []
            r.check(op, mdl)
        elif op in ("swap_node", "swap_section"):
            # two sections of one ring or of two rings: disjoint and not adjacent (as the property states)
            two = ex.pick([0, 1], "two_rings") if m else 0
            if two:
                r2 = Ring(ex, tr, m, "b")
                i1 = ex.pick(list(range(len(r.model))), "h1") if r.model else None
                if i1 is None:
                    raise core.Infeasible()
                j1 = i1 if op == "swap_node" else ex.pick(list(range(i1, len(r.model))), "t1")
                i2 = ex.pick(list(range(len(r2.model))), "h2")
                j2 = i2 if op == "swap_node" else ex.pick(list(range(i2, len(r2.model))), "t2")
                s1, s2 = r.model[i1:j1 + 1], r2.model[i2:j2 + 1]
                if op == "swap_node":
                    call("swap_node", s1[0], s2[0])
                else:
                    call("swap_", s1[0], s1[-1], s2[0], s2[-1])
                r.check(op + "-ring1", r.model[:i1] + s2 + r.model[j1 + 1:])
                r2.check(op + "-ring2", r2.model[:i2] + s1 + r2.model[j2 + 1:])
            else:
                seq = [r.head] + r.model           # sections may not contain the head sentinel here
                L = len(seq)
                if L < 5:
                    raise core.Infeasible()
                i1 = ex.pick(list(range(1, L)), "h1")
                j1 = i1 if op == "swap_node" else ex.pick(list(range(i1, L)), "t1")
                i2 = ex.pick(list(range(1, L)), "h2")
                j2 = i2 if op == "swap_node" else ex.pick(list(range(i2, L)), "t2")
                if not (j1 + 1 < i2):
                    raise core.Infeasible()        # keep section 1 before section 2, with a gap between them
                if i1 == 1 and j2 == L - 1 and False:
                    raise core.Infeasible()
                s1, s2 = seq[i1:j1 + 1], seq[i2:j2 + 1]
                # cyclic adjacency through the head is fine: the head separates them
                if op == "swap_node":
                    call("swap_node", s1[0], s2[0])
                else:
                    call("swap_", s1[0], s1[-1], s2[0], s2[-1])
                new = seq[:i1] + s2 + seq[j1 + 1:i2] + s1 + seq[j2 + 1:]
                r.check(op, new[1:])
    return h


# ------------------------------------------------------------------ singly linked list
class SList:
    def __init__(self, ex, tr, n, tag):
        self.ex, self.tr = ex, tr
        self.ctx = tr.alloc(16, tag + "_slist")
        self.nodes = [tr.alloc(8, "%s%d" % (tag, i)) for i in range(n)]
        seq = [self.ctx] + self.nodes
        for i, a in enumerate(seq):
            tr.store(a, seq[i + 1] if i + 1 < len(seq) else 0, 8)
        tr.store(self.ctx + 8, seq[-1], 8)
        self.model = list(self.nodes)

    def check(self, what, model=None):
        ex = self.ex
        model = self.model if model is None else model
        cur = ex.load(self.ctx, I64)
        walked = []
        for _ in range(len(model) + 2):
            if cur == 0:
                break
            ex.check(isinstance(cur, int) and ex.obj_at(cur) is not None, what + ":broken-link")
            walked.append(cur)
            cur = ex.load(cur, I64)
        ex.check(walked == list(model), what + ":reachable-nodes-differ-from-model", "walked %s expected %s" % ([hex(x) for x in walked], [hex(x) for x in model]))
        tail = ex.load(self.ctx + 8, I64)
        ex.check(tail == (model[-1] if model else self.ctx), what + ":tail-does-not-designate-last-node", "tail=%s" % (hex(tail) if isinstance(tail, int) else tail))


def slist_harness(op, n, m):
    def h(ex):
        tr = Tr(ex, PRELUDE)
        ex.path_tags = ["slist", op, "n=%d m=%d" % (n, m)]
        s = SList(ex, tr, n, "a")
        call = lambda f, *a: tr.call("w_slist_" + f, *a, ret="void")
        seq = [s.ctx] + s.model
        if op == "add":
            node = tr.alloc(8, "new")
            tr.store(node, ex.fresh_bv("junk", 64), 8)
            i = ex.pick(list(range(len(seq))), "prev")
            call("add", s.ctx, seq[i], node)
            s.check(op, s.model[:i] + [node] + s.model[i:])
        elif op in ("add_head", "add_tail"):
            node = tr.alloc(8, "new")
            tr.store(node, ex.fresh_bv("junk", 64), 8)
            call(op, s.ctx, node)
            s.check(op, [node] + s.model if op == "add_head" else s.model + [node])
        elif op == "del":
            i = ex.pick(list(range(len(seq))), "prev")
            call("del", s.ctx, seq[i])
            s.check(op, s.model[:i] + s.model[i + 1:])
        elif op == "del_head":
            call("del_head", s.ctx)
            s.check(op, s.model[1:])
        elif op == "rot":
            call("rot", s.ctx)
            s.check(op, s.model[1:] + s.model[:1])
        elif op == "mov":
            t = SList(ex, tr, m, "b")
            tseq = [t.ctx] + t.model
            i = ex.pick(list(range(len(tseq))), "at")
            call("mov", s.ctx, t.ctx, tseq[i])
            t.check(op, t.model[:i] + s.model + t.model[i:])
    return h


# ------------------------------------------------------------------ queue
QSZ = 56


class Que:
    def __init__(self, ex, tr, siz, tag="q"):
        self.ex, self.tr, self.siz, self.tag = ex, tr, siz, tag
        self.q = tr.alloc(QSZ, tag)
        tr.call("a_que_ctor", self.q, siz, ret="void")
        self.model = []      # (payload address, [tag bytes])
        self.pool = []       # node addresses believed recycled
        self.cmp = ("fn", "cmp_b0", ex.func_ptr(self.h_cmp, "cmp_b0"))
        self.ntag = 0

    def h_cmp(self, ex, a, b):
        x, y = ex.load(a, I8), ex.load(b, I8)
        if isinstance(x, int) and isinstance(y, int):
            return ((x > y) - (x < y)) & 0xFFFFFFFF
        x, y = bv(x, 8), bv(y, 8)
        return z3.If(z3.UGT(x, y), z3.BitVecVal(1, 32), z3.If(z3.ULT(x, y), z3.BitVecVal(0xFFFFFFFF, 32), z3.BitVecVal(0, 32)))

    def fields(self):
        ex = self.ex
        return dict(next=ex.load(self.q, I64), prev=ex.load(self.q + 8, I64), ptr=ex.load(self.q + 16, I64), siz=ex.load(self.q + 24, I64),
                    num=ex.load(self.q + 32, I64), cur=ex.load(self.q + 40, I64), mem=ex.load(self.q + 48, I64))

    def newtag(self):
        self.ntag += 1
        return [self.ex.fresh_bv("%s_tag%d_%d" % (self.tag, self.ntag, j), 8) for j in range(self.siz)]

    def fill(self, p):
        t = self.newtag()
        self.tr.store_bytes(p, t)
        return t

    def check(self, what):
        ex = self.ex
        f = self.fields()
        for k, v in f.items():
            ex.check(isinstance(v, int), what + ":symbolic-field-" + k)
        ex.check(f["num"] == len(self.model), what + ":count-differs-from-model", "num_=%s model=%d" % (f["num"], len(self.model)))
        ex.check(f["siz"] == self.siz, what + ":element-size")
        # ring
        seq = [self.q] + [p - 16 for p, _ in self.model]
        cur = self.q
        walked = []
        for _ in range(len(seq) + 2):
            nx = ex.load(cur, I64)
            ex.check(isinstance(nx, int) and ex.obj_at(nx) is not None, what + ":broken-link")
            ex.check(ex.load(nx + 8, I64) == cur, what + ":next-prev-links-disagree", "at %#x" % cur)
            walked.append(cur)
            cur = nx
            if cur == self.q:
                break
        ex.check(walked == seq, what + ":ring-differs-from-model (element addresses must stay fixed)",
                 "walked %s expected %s" % ([hex(x) for x in walked], [hex(x) for x in seq]))
        # payloads
        got = [ex.read_bytes(p, self.siz) for p, _ in self.model]
        ex.check(elems_eq(got, [t for _, t in self.model]), what + ":contents-differ-from-model")
        # pool
        pool = [ex.load(f["ptr"] + 8 * i, I64) for i in range(f["cur"])] if f["cur"] else []
        ex.check(f["cur"] <= f["mem"], what + ":pool-cursor-beyond-pool")
        ex.check(len(set(pool)) == len(pool), what + ":node-twice-in-pool")
        ex.check(not (set(pool) & set(seq[1:])), what + ":recycled-node-still-enqueued")
        for n in pool:
            o = ex.obj_at(n) if isinstance(n, int) else None
            ex.check(o is not None and o.alive and o.base == n and o.size >= 16 + self.siz, what + ":pool-entry-is-not-a-node", str(n))
        self.pool = pool

    # operations
    def push(self, side):
        p = self.tr.call("a_que_push_" + side, self.q, ret="ptr")
        succeeded(self.ex, p != 0, "push_%s:unexpected-failure" % side)
        self.ex.check(p - 16 not in [a - 16 for a, _ in self.model], "push_%s:node-handed-out-while-enqueued" % side)
        t = self.fill(p)
        if side == "fore":
            self.model.insert(0, (p, t))
        else:
            self.model.append((p, t))
        self.check("push_" + side)

    def pull(self, side):
        p = self.tr.call("a_que_pull_" + side, self.q, ret="ptr")
        if failed_now(self.ex):
            self.ex.check(p == 0, "pull_%s:allocation-failure-not-reported" % side)
            raise OpFailed()
        if not self.model:
            self.ex.check(p == 0, "pull_%s:empty-must-return-null" % side)
            self.check("pull_%s-empty" % side)
            return
        a, t = self.model.pop(0 if side == "fore" else -1)
        self.ex.check(p == a, "pull_%s:wrong-element" % side, "got %s expected %#x" % (p, a))
        self.ex.check(elems_eq([self.ex.read_bytes(p, self.siz)], [t]), "pull_%s:element-not-intact" % side)
        self.check("pull_" + side)

    def idx_arg(self, name):
        ex = self.ex
        n = len(self.model)
        choices = ["beyond"] + (["in"] if n else [])
        if ex.pick(choices, name + "_class") == "in":
            pos = ex.pick(list(range(n)), name + "_pos")
            return pos, pos
        idx = ex.fresh_bv(name, 64)
        if ex.concrete is None:
            ex.add(z3.UGE(idx, n))
        return idx, None

    def op_insert(self):
        idx, pos = self.idx_arg("ins")
        p = self.tr.call("a_que_insert", self.q, idx, ret="ptr")
        succeeded(self.ex, p != 0, "insert:unexpected-failure")
        t = self.fill(p)
        self.model.insert(pos if pos is not None else len(self.model), (p, t))
        self.check("insert")

    def op_remove(self):
        idx, pos = self.idx_arg("rem")
        p = self.tr.call("a_que_remove", self.q, idx, ret="ptr")
        if failed_now(self.ex):
            self.ex.check(p == 0, "remove:allocation-failure-not-reported")
            raise OpFailed()
        if not self.model:
            self.ex.check(p == 0, "remove:empty-must-return-null")
            return self.check("remove-empty")
        a, t = self.model.pop(pos if pos is not None else -1)
        self.ex.check(p == a, "remove:wrong-element", "got %s expected %#x" % (p, a))
        self.ex.check(elems_eq([self.ex.read_bytes(p, self.siz)], [t]), "remove:element-not-intact")
        self.check("remove")

    def op_at(self):
        ex = self.ex
        n = len(self.model)
        idx = ex.fresh_bv("at_idx", 64)
        p = self.tr.call("a_que_at", self.q, idx, ret="ptr")
        if is_sym(p):
            p = ex.concretize(p)
        addrs = [a for a, _ in self.model]
        if p == 0:
            inr = z3.Or(z3.And(idx >= 0, idx < n), z3.And(idx < 0, idx >= -n)) if is_sym(idx) else (0 <= s64(idx) < n or -n <= s64(idx) < 0)
            ex.check(z3.Not(inr) if is_sym(idx) else not inr, "at:null-for-valid-index")
        else:
            ex.check(p in addrs, "at:not-an-enqueued-element")
            k = addrs.index(p)
            ok = z3.Or(idx == k, idx == k - n) if is_sym(idx) else s64(idx) in (k, k - n)
            ex.check(ok, "at:wrong-element-for-index")
        f = self.tr.call("w_que_fore", self.q, ret="ptr")
        b = self.tr.call("w_que_back", self.q, ret="ptr")
        ex.check(f == (addrs[0] if addrs else 0), "fore:wrong-element")
        ex.check(b == (addrs[-1] if addrs else 0), "back:wrong-element")
        self.check("at")

    def op_sort_fore(self):
        ex = self.ex
        for (a, x), (b, y) in zip(self.model[1:], self.model[2:]):
            ex.assume(ule(x[0], y[0]))
        old = list(self.model)
        self.tr.call("a_que_sort_fore", self.q, self.cmp, ret="void")
        self._resorted(old, [old[1:j + 1] + [old[0]] + old[j + 1:] for j in range(len(old))] if old else [[]], "sort_fore")

    def op_sort_back(self):
        ex = self.ex
        for (a, x), (b, y) in zip(self.model[:-1], self.model[1:-1]):
            ex.assume(ule(x[0], y[0]))
        old = list(self.model)
        self.tr.call("a_que_sort_back", self.q, self.cmp, ret="void")
        self._resorted(old, [old[:j] + [old[-1]] + old[j:-1] for j in range(len(old))] if old else [[]], "sort_back")

    def _resorted(self, old, cands, what):
        ex = self.ex
        # read the ring order
        cur = ex.load(self.q, I64)
        order = []
        for _ in range(len(old) + 1):
            if cur == self.q:
                break
            order.append(cur + 16)
            cur = ex.load(cur, I64)
        match = [c for c in cands if [a for a, _ in c] == order]
        ex.check(bool(match), what + ":not-the-old-elements-with-one-reinserted", "order %s" % [hex(x) for x in order])
        self.model = match[0]
        ex.check(conj([ule(x[0], y[0]) for (_, x), (_, y) in zip(self.model, self.model[1:])]), what + ":result-not-sorted")
        self.check(what)

    def op_push_sort(self):
        ex = self.ex
        for (a, x), (b, y) in zip(self.model, self.model[1:]):
            ex.assume(ule(x[0], y[0]))
        key = self.tr.alloc(self.siz, "key")
        kb = [ex.fresh_bv("key%d" % j, 8) for j in range(self.siz)]
        self.tr.store_bytes(key, kb)
        old = list(self.model)
        p = self.tr.call("a_que_push_sort", self.q, key, self.cmp, ret="ptr")
        succeeded(ex, p != 0, "push_sort:unexpected-failure")
        self.tr.store_bytes(p, kb)       # the caller fills the slot with the key
        cur = ex.load(self.q, I64)
        order = []
        for _ in range(len(old) + 2):
            if cur == self.q:
                break
            order.append(cur + 16)
            cur = ex.load(cur, I64)
        cands = [old[:j] + [(p, kb)] + old[j:] for j in range(len(old) + 1)]
        match = [c for c in cands if [a for a, _ in c] == order]
        ex.check(bool(match), "push_sort:old-elements-lost-or-reordered")
        self.model = match[0]
        ex.check(conj([ule(x[0], y[0]) for (_, x), (_, y) in zip(self.model, self.model[1:])]), "push_sort:result-not-sorted")
        self.check("push_sort")

    def op_swap_elems(self):
        ex = self.ex
        n = len(self.model)
        if n < 3:
            raise core.Infeasible()
        i = ex.pick(list(range(n)), "sw_i")
        j = ex.pick(list(range(n)), "sw_j")
        if not (i + 1 < j) or (i == 0 and j == n - 1 and False):
            raise core.Infeasible()      # distinct, not adjacent (adjacent nodes are outside the property)
        self.tr.call("w_que_swap_", self.model[i][0], self.model[j][0], ret="void")
        self.model[i], self.model[j] = self.model[j], self.model[i]
        self.check("swap_")

    def op_drop(self):
        rc = self.tr.call("a_que_drop", self.q, 0, ret="i32")
        succeeded(self.ex, rc == 0, "drop:unexpected-failure")
        self.model = []
        self.check("drop")
        if not armed(self.ex):
            self.push("back")

    def op_setz(self):
        z = self.ex.pick([0, 1, 3], "setz")
        rc = self.tr.call("a_que_setz", self.q, z, 0, ret="i32")
        succeeded(self.ex, rc == 0, "setz:unexpected-failure")
        self.siz = z or 1
        self.model = []
        self.check("setz")
        if not armed(self.ex):
            self.push("back")
            self.push("fore")


def s64(v):
    return v - (1 << 64) if v >> 63 else v


def armed(ex):
    f = getattr(ex, "fault", None)
    return f is not None and f.armed


def que_harness(hist, op):
    def h(ex):
        tr = Tr(ex, PRELUDE)
        ex.path_tags = ["que", hist, op]
        q = Que(ex, tr, 2)
        for c in hist:
            {"F": lambda: q.push("fore"), "B": lambda: q.push("back"), "f": lambda: q.pull("fore"), "b": lambda: q.pull("back")}[c]()
        if op == "swap_queues":
            q2 = Que(ex, tr, 2, "r")
            n2 = ex.pick([0, 1, 2], "n2")
            for _ in range(n2):
                q2.push("back")
            tr.call("a_que_swap", q.q, q2.q, ret="void")
            q.model, q2.model = q2.model, q.model
            q.check("swap-lhs")
            q2.check("swap-rhs")
            q.push("back")
            q2.pull("fore")
            tr.call("a_que_dtor", q.q, 0, ret="void")
            tr.call("a_que_dtor", q2.q, 0, ret="void")
            return
        for o in op.split("+"):
            if o in ("push_fore", "push_back"):
                q.push(o[5:])
            elif o in ("pull_fore", "pull_back"):
                q.pull(o[5:])
            else:
                getattr(q, "op_" + o)()
        tr.call("a_que_dtor", q.q, 0, ret="void")
    return h


def builder(p):
    if p[0] == "list":
        return "list/%s/n%d-m%d" % (p[1], p[2], p[3]), list_harness(p[1], p[2], p[3])
    if p[0] == "slist":
        return "slist/%s/n%d-m%d" % (p[1], p[2], p[3]), slist_harness(p[1], p[2], p[3])
    return "que/%s/%s" % (p[1] or "-", p[2]), que_harness(p[1], p[2])


def histories(maxlen):
    out = []

    def rec(s, n):
        out.append(s)
        if len(s) == maxlen:
            return
        for c in "FB":
            rec(s + c, n + 1)
        if n:
            for c in "fb":
                rec(s + c, n - 1)
    rec("", 0)
    return out


LIST_OPS = ["add_next", "add_prev", "add_node", "del_node", "del_next", "del_prev", "del_section", "set_node", "set_section",
            "mov_next", "mov_prev", "rot_next", "rot_prev", "swap_node", "swap_section"]
SLIST_OPS = ["add", "add_head", "add_tail", "del", "del_head", "rot", "mov"]
QUE_OPS = ["push_fore", "push_back", "pull_fore", "pull_back", "insert", "remove", "at", "sort_fore", "sort_back", "push_sort",
           "swap_elems", "swap_queues", "drop", "setz"]


def main():
    cfg = gen_config()
    res = Result(PID)
    T = tier()
    NL, NS, HL = (4, 3, 5) if T == "quick" else (6, 5, 5)
    inst = []
    for op in LIST_OPS:
        for n in range(0, NL + 1):
            for m in ((1, 2) if op.startswith(("mov", "swap")) else (0,)):
                inst.append(("list", op, n, m))
    for op in SLIST_OPS:
        for n in range(0, NS + 1):
            for m in ((0, 1, 2) if op == "mov" else (0,)):
                inst.append(("slist", op, n, m))
    hs = histories(HL)
    for hst in hs:
        for op in QUE_OPS:
            inst.append(("que", hst, op))
    if T == "thorough":
        for hst in [x for x in hs if len(x) <= 2]:
            for o1, o2 in itertools.product(["insert", "remove", "sort_fore", "push_sort", "swap_elems", "drop", "setz", "pull_fore"], repeat=2):
                inst.append(("que", hst, o1 + "+" + o2))
    res.functions.update(["a_list_" + f for f in ["ctor", "add_", "add_node", "add_next", "add_prev", "del_", "del_node", "del_next", "del_prev", "set_", "set_node",
                                                   "mov_next", "mov_prev", "rot_next", "rot_prev", "swap_", "swap_node", "link", "loop"]] +
                         ["a_slist_" + f for f in ["ctor", "add", "add_head", "add_tail", "del", "del_head", "mov", "rot", "link"]] +
                         ["a_que_" + f for f in ["ctor", "dtor", "new_", "die_", "swap", "drop", "setz", "at", "sort_fore", "sort_back", "push_sort", "push_fore",
                                                  "push_back", "pull_fore", "pull_back", "insert", "remove", "fore", "back", "swap_"]])
    res.bounds = {"list": "rings of 0..%d nodes (+ second ring of 1..2), every operand position / section symbolic (forked)" % NL,
                  "slist": "lists of 0..%d nodes (+ second list 0..2)" % NS,
                  "queue": "states reached through the API by every valid push/pull history of length <= %d (%d histories), then one operation (thorough: also pairs) with symbolic index (any 64-bit value beyond the end, signed for at()), symbolic 2-byte payload tags" % (HL, len(hs))}
    res.outside = ["a_list_swap_/set_/mov on adjacent or overlapping sections (excluded by the property)", "moving an empty list (mov_* with an empty source)",
                   "destructor semantics of a_que_drop/a_que_dtor", "allocation failure (C07)"]
    res.assumptions = ["node identity = address; queue element addresses are compared, so 'element addresses stay fixed while enqueued' is checked directly"]
    res.stubs = ["cmp_b0 callback (first payload byte, unsigned)"]
    e2.run_e2(res, cfg, ["que.c", "a.c"], inst, builder, wrappers=[TU1, TU2], group="c05", validate_every=13,
              replay_srcs=repo_sources(["que.c", "a.c", "vec.c", "buf.c", "str.c", "utf.c"]) + [TU1, TU2], time_budget=900 if T == "quick" else 6000)
    e2.finish_coverage(res, must_cover=["a_que_insert", "a_que_remove", "a_que_at", "a_que_swap", "a_que_drop", "a_que_setz", "w_list_swap_", "w_slist_rot"],
                       report_funcs=set(f for f in res.functions if f.startswith("a_que")))
    return res.finish()


if __name__ == "__main__":
    sys.exit(main())
