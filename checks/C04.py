"""C04: vector and fixed buffer — E2 (llsym, bit-vector domain), DESIGN.md section 4/C04."""
import os, sys
from vcommon import *
import e2
sys.path.insert(0, os.path.join(VERIF, "harness", "llsym"))
import core, seqcheck
from seqcheck import Seq
from replay import Tr
import z3

PID = "C04"
TU = os.path.join(VERIF, "harness", "tu", "seq_tu.c")
OPS = ["push_back", "push_fore", "insert", "pull_back", "pull_fore", "remove", "store", "erase", "setn", "setm", "setz",
       "sort_fore", "sort_back", "push_sort", "access"]
I64 = core.ir.int_t(64)


def state_harness(kind, siz, mem, num, ops, slack):
    def h(ex):
        s = Seq(ex, kind, siz, mem, num, slack=slack)
        ex.path_tags = [kind, "siz=%d mem=%d num=%d" % (siz, mem, num)] + list(ops)
        for o in ops:
            s.dtor_calls = []
            s.op(o)
    return h


def ctor_harness(kind):
    """Constructor states: symbolic element size (0 is accepted and treated as 1), then use."""
    def h(ex):
        tr = Tr(ex, seqcheck.C_PRELUDE)
        siz = ex.fresh_bv("ctor_siz", 64)
        if ex.concrete is None:
            ex.add(z3.ULE(siz, 3))
        ex.path_tags = [kind, "ctor"]
        if kind == "vec":
            v = tr.call("a_vec_new", siz, ret="ptr")
            ex.check(v != 0, "new:unexpected-failure")
            tr.adopt(v, 32, "vec")
            s = Seq.__new__(Seq)
            s.ex, s.kind, s.tr, s.hdr, s.model, s.pfx, s.dtor_calls = ex, "vec", tr, v, [], "a_vec", []
            hs = ex.load(v + 8, I64)
            ex.check((hs == siz) if not core.is_sym(siz) else z3.If(siz == 0, core.bv(hs, 64) == 1, core.bv(hs, 64) == siz), "new:element-size-zero-is-one")
            s.siz = ex.concretize(hs)
            ex.check(s.siz >= 1, "new:element-size-zero-is-one")
            s.check_state("new")
            s.op_push_back()
            s.op_push_back()
            s.op_pull_fore()
            tr.call("a_vec_die", v, 0, ret="void")
        else:
            cap = ex.pick([0, 1, 2], "cap")
            b = tr.call("a_buf_new", siz, cap, ret="ptr")
            ex.check(b != 0, "new:unexpected-failure")
            o = ex.obj_at(b)
            tr.adopt(b, o.size, "buf")
            s = Seq.__new__(Seq)
            s.ex, s.kind, s.tr, s.hdr, s.model, s.pfx, s.dtor_calls = ex, "buf", tr, b, [], "a_buf", []
            hs = ex.load(b + 16, I64)
            s.siz = ex.concretize(hs)
            ex.check(s.siz >= 1, "new:element-size-zero-is-one")
            s.check_state("new")
            s.op_push_back()
            s.op_push_back()
            s.op_pull_fore()
            tr.call("a_buf_die", b, 0, ret="void")
    return h


def swap_harness():
    def h(ex):
        a = Seq(ex, "vec", 2, 2, 1, tag="a")
        b = Seq(ex, "vec", 3, 3, 3, tag="b")
        ex.path_tags = ["vec", "swap"]
        a.tr.call("a_vec_swap", a.hdr, b.hdr, ret="void")
        a.model, b.model = b.model, a.model
        a.siz, b.siz = b.siz, a.siz
        a.check_state("swap-lhs")
        b.check_state("swap-rhs")
        a.op_push_back()
        b.op_pull_fore()
    return h


def builder(p):
    if p[0] == "state":
        _, kind, siz, mem, num, ops, slack = p
        return "%s/siz%d-mem%d-num%d%s/%s" % (kind, siz, mem, num, "+slack" if slack else "", "+".join(ops)), state_harness(kind, siz, mem, num, ops, slack)
    if p[0] == "ctor":
        return "%s/constructor" % p[1], ctor_harness(p[1])
    return "vec/swap", swap_harness()


def main():
    cfg = gen_config()
    res = Result(PID)
    T = tier()
    inst = []
    if T == "quick":
        sizes, maxmem = (1, 3), 3
    else:
        sizes, maxmem = (1, 2, 3, 8), 5
    for kind in ("vec", "buf"):
        for siz in sizes:
            for mem in range(0, maxmem + 1):
                for num in sorted(set([0, mem // 2, max(0, mem - 1), mem])):
                    if num > mem:
                        continue
                    for o in OPS:
                        inst.append(("state", kind, siz, mem, num, (o,), 0))
        inst.append(("ctor", kind))
    inst.append(("swap",))
    if T == "thorough":
        import itertools
        second = ["insert", "remove", "erase", "store", "push_sort", "setz"]
        for kind in ("vec", "buf"):
            for (mem, num) in ((2, 1), (2, 2), (3, 2)):
                for o1, o2 in itertools.product(second, second):
                    inst.append(("state", kind, 2, mem, num, (o1, o2), 0))
        for o in OPS:      # block larger than siz*mem (state after setz)
            inst.append(("state", "vec", 3, 2, 1, (o,), 5))
    res.functions.update("a_vec_" + f for f in ["new", "die", "ctor", "dtor", "swap", "setm", "setn", "setz", "sort_fore", "sort_back", "push_sort", "insert",
                                                "push_fore", "push_back", "remove", "pull_fore", "pull_back", "store", "erase", "at", "of", "top", "end"])
    res.functions.update("a_buf_" + f for f in ["new", "die", "ctor", "dtor", "setm", "setn", "setz", "sort_fore", "sort_back", "push_sort", "insert",
                                                "push_fore", "push_back", "remove", "pull_fore", "pull_back", "store", "erase", "at", "of", "top", "end"])
    res.functions.update(["a_copy", "a_move", "a_swap", "a_alloc_"])
    res.bounds = {"pre-states": "constructed: element size in %s, capacity 0..%d, counts {0, mem/2, mem-1, mem} (spare slot and exactly full), payload bytes symbolic" % (list(sizes), maxmem),
                  "operation": "one operation (thorough: also pairs of mutators) with symbolic arguments: indices either a concretised in-range position or ANY 64-bit value >= count (incl. SIZE_MAX), erase counts likewise, source elements symbolic",
                  "constructors": "a_vec_new / a_buf_new with symbolic element size 0..3 followed by use"}
    res.outside = ["a_vec_sort/a_vec_search/a_buf_sort/a_buf_search (one-line qsort/bsearch pass-throughs)", "capacity requests above 9 elements (growth loop towards SIZE_MAX)",
                   "elements larger than 8 bytes", "a_buf_setm below the current element count (documented use is growth; see DESIGN 6 #15)",
                   "store() with a source array shorter than `num` elements"]
    res.assumptions = ["malloc/realloc/free: llsym allocator (fresh exact-size object, realloc = new + copy + free); allocation never fails here (failure is C07)",
                       "cmp orders elements by their first byte; destructor/copy callbacks touch exactly one element"]
    res.stubs = ["cmp_b0, dtor_count, copy_N callbacks (Python hooks; C equivalents in the replay prelude)"]
    e2.run_e2(res, cfg, ["vec.c", "buf.c", "a.c"], inst, builder, wrappers=[TU], group="seq", validate_every=17,
              replay_srcs=repo_sources(["vec.c", "buf.c", "a.c"]) + [TU], time_budget=900 if T == "quick" else 6000)
    e2.finish_coverage(res, must_cover=["a_vec_remove", "a_vec_erase", "a_buf_remove", "a_buf_erase", "a_vec_insert", "a_vec_store"],
                       report_funcs=set(f for f in res.functions))
    return res.finish()


if __name__ == "__main__":
    sys.exit(main())
