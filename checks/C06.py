"""C06: dynamic string — E2 (llsym, bit-vector domain), DESIGN.md section 4/C06."""
import os, sys, itertools, ctypes
from vcommon import *
import e2
sys.path.insert(0, os.path.join(VERIF, "harness", "llsym"))
import core, z3
from core import bv, is_sym
from replay import Tr
from fault import succeeded, failed_now, OpFailed
from seqcheck import beq, conj, disj, elems_eq

PID = "C06"
TU = os.path.join(VERIF, "harness", "tu", "seq_tu.c")
I64, I32, I8 = core.ir.int_t(64), core.ir.int_t(32), core.ir.int_t(8)
A_OBOUNDS = 3

PRELUDE = ""


def ctype_table():
    libc = ctypes.CDLL(None)
    libc.__ctype_b_loc.restype = ctypes.POINTER(ctypes.POINTER(ctypes.c_ushort))
    p = libc.__ctype_b_loc()[0]
    return [p[i] for i in range(-128, 256)]


CT = ctype_table()


def is_space_expr(b):
    if isinstance(b, int):
        return b in (9, 10, 11, 12, 13, 32)
    return z3.Or(*[b == c for c in (9, 10, 11, 12, 13, 32)])


def bytes_eq(xs, ys):
    if len(xs) != len(ys):
        return False
    return conj([beq(a, b) for a, b in zip(xs, ys)])


class Str:
    def __init__(self, ex, tr, mem, num, term, tag="s"):
        self.ex, self.tr = ex, tr
        self.s = tr.alloc(24, tag)
        blk = tr.alloc(mem, tag + "_blk") if mem else 0
        tr.store(self.s, blk, 8)
        tr.store(self.s + 8, num, 8)
        tr.store(self.s + 16, mem, 8)
        self.model = []
        for i in range(mem):
            b = ex.fresh_bv("%s_c%d" % (tag, i), 8)
            if term and i == num:
                b = 0
            tr.store(blk + i, b, 1)
            if i < num:
                self.model.append(b)
        self.install_env()

    def install_env(self):
        ex = self.ex
        if "__ctype_b_loc" not in ex.hooks or True:
            tab = ex.alloc(384 * 2, "global", "ctype_table")
            for i, v in enumerate(CT):
                ex.store(tab + 2 * i, v, core.ir.int_t(16))
            ex.obj_at(tab).ro = True
            pp = ex.alloc(8, "global", "ctype_ptr")
            ex.store(pp, tab + 256, I64)
            ex.hooks["__ctype_b_loc"] = lambda ex: pp
        ex.hooks["llvm.va_start"] = lambda ex, p: None
        ex.hooks["llvm.va_copy"] = lambda ex, d, s: ex.memcpy(d, s, 24)

    def cur(self):
        ex = self.ex
        return tuple(ex.load(self.s + o, I64) for o in (0, 8, 16))

    def check(self, what, terminated=False):
        ex = self.ex
        ptr, num, mem = self.cur()
        if is_sym(num):
            ex.check(z3.ULE(bv(num, 64), bv(mem, 64)), what + ":length-exceeds-capacity", "symbolic length %s" % str(num)[:60])
            ex.check(bv(num, 64) == len(self.model), what + ":length-differs-from-model", "symbolic length %s" % str(num)[:60])
            num = len(self.model)
        ptr, mem = [ex.concretize(v) if is_sym(v) else v for v in (ptr, mem)]
        ex.check(num <= mem, what + ":length-exceeds-capacity", "num=%s mem=%s" % (num, mem))
        if mem:
            o = ex.obj_at(ptr)
            ex.check(o is not None and o.alive and o.base == ptr and mem <= o.size, what + ":capacity-exceeds-owned-storage", "mem=%s block=%s" % (mem, o.size if o else None))
            if not self.tr.owned(ptr):
                self.tr.adopt_mem(self.s, "str_blk")
        ex.check(num == len(self.model), what + ":length-differs-from-model", "num=%s model=%d" % (num, len(self.model)))
        got = ex.read_bytes(ptr, num) if num else []
        ex.check(bytes_eq(got, self.model), what + ":content-differs-from-model")
        if terminated:
            ex.check(num < mem, what + ":no-room-for-terminator", "num=%s mem=%s" % (num, mem))
            ex.check(beq(ex.read_bytes(ptr + num, 1)[0], 0), what + ":not-nul-terminated")

    def call(self, f, *args, **kw):
        return self.tr.call(f, self.s, *args, **kw)

    def sym_bytes(self, n, name, nonzero=False):
        out = []
        for i in range(n):
            b = self.ex.fresh_bv("%s%d" % (name, i), 8)
            if nonzero and self.ex.concrete is None:
                self.ex.add(b != 0)
            if nonzero and self.ex.concrete is not None and b == 0:
                b = 1
            out.append(b)
        return out

    def buf(self, bs, name, nul=False):
        a = self.tr.alloc(max(1, len(bs) + (1 if nul else 0)), name)
        self.tr.store_bytes(a, list(bs) + ([0] if nul else []))
        return a

    # ------------------------------------------------------------ operations
    def op_catc(self, term=True):
        ex = self.ex
        c = ex.fresh_bv("chr", 32)
        r = self.call("a_str_catc" if term else "a_str_catc_", c, ret="i32")
        if failed_now(ex):
            ex.check(eq32(r, 0xFFFFFFFF), "catc:allocation-failure-not-reported")
            raise OpFailed()
        ex.check(eq32(r, c), "catc:return-value")
        self.model.append(low8(c))
        self.check("catc" if term else "catc_", term)

    def op_catc_(self):
        self.op_catc(False)

    def op_getc(self, term=True):
        ex = self.ex
        r = self.call("a_str_getc" if term else "a_str_getc_", ret="i32")
        if not self.model:
            ex.check(r == 0xFFFFFFFF, "getc:empty-returns-minus-one")
            self.check("getc-empty")
            return
        b = self.model.pop()
        # (int)(char): sign-extended
        exp = z3.SignExt(24, bv(b, 8)) if is_sym(b) else ((b | 0xFFFFFF00) if b & 0x80 else b)
        ex.check(eq32(r, exp), "getc:returns-last-character")
        self.check("getc" if term else "getc_", term and self.cur()[2] > 0)

    def op_getc_(self):
        self.op_getc(False)

    def op_catn(self, term=True, n=None):
        ex = self.ex
        n = ex.pick([0, 1, 3, 9], "catn_n") if n is None else n
        src = self.sym_bytes(n, "src")
        a = self.buf(src, "src") if n else 0
        rc = self.call("a_str_catn" if term else "a_str_catn_", a, n, ret="i32")
        succeeded(ex, rc == 0, "catn:unexpected-failure")
        self.model += src
        self.check("catn" if term else "catn_", term)

    def op_catn_(self):
        self.op_catn(False)

    def op_cats(self, term=True):
        ex = self.ex
        n = ex.pick([0, 2, 9], "cats_n")
        src = self.sym_bytes(n, "cs", nonzero=True)
        a = self.buf(src, "cstr", nul=True)
        rc = self.call("a_str_cats" if term else "a_str_cats_", a, ret="i32")
        succeeded(ex, rc == 0, "cats:unexpected-failure")
        self.model += src
        self.check("cats" if term else "cats_", term)

    def op_cats_(self):
        self.op_cats(False)

    def op_cat(self, term=True):
        ex = self.ex
        n = ex.pick([0, 2, 9], "cat_n")
        o = Str(ex, self.tr, 16 if n else 0, n, False, "o")
        rc = self.call("a_str_cat" if term else "a_str_cat_", o.s, ret="i32")
        succeeded(ex, rc == 0, "cat:unexpected-failure")
        self.model += o.model
        self.check("cat" if term else "cat_", term)
        o.check("cat:source-unchanged")

    def op_cat_(self):
        self.op_cat(False)

    def op_getn(self, term=True):
        ex = self.ex
        n = ex.fresh_bv("getn_n", 64)
        cnt = len(self.model)
        want = ex.pick([0, 1], "getn_buf")
        out = self.tr.alloc(max(cnt, 1), "out") if want else 0
        r = self.call("a_str_getn" if term else "a_str_getn_", out, n, ret="i64")
        k = ex.concretize(r, limit=cnt + 2) if is_sym(r) else r
        ex.check(isinstance(k, int) and k <= cnt, "getn:returns-more-than-available")
        ex.check((z3.If(z3.ULT(n, cnt), n, z3.BitVecVal(cnt, 64)) == k) if is_sym(n) else k == min(n, cnt), "getn:count-is-min(nbyte,length)")
        tail = self.model[cnt - k:]
        self.model = self.model[:cnt - k]
        if want and k:
            ex.check(bytes_eq(ex.read_bytes(out, k), tail), "getn:returns-what-was-appended-last")
        self.check("getn" if term else "getn_", term and k > 0)

    def op_getn_(self):
        self.op_getn(False)

    def op_catf(self):
        """printf-style append; the C formatter is the vsnprintf stub of DESIGN 1.1 (natively: "%s")."""
        ex = self.ex
        L = ex.pick([0, 1, 4, 8, 9], "fmt_len")
        F = self.sym_bytes(L, "fmt", nonzero=True)
        calls = []

        def h_vsnprintf(ex, buf, n, fmt, va):
            n = ex.concretize(n) if is_sym(n) else n
            calls.append(n)
            if n > 0:
                k = min(L, n - 1)
                if k:
                    ex.write_bytes(buf, F[:k])
                ex.write_bytes(buf + k, [0])
            return L
        ex.hooks["vsnprintf"] = h_vsnprintf
        fmt = self.buf([0x25, 0x73], "fmt", nul=True)      # "%s"
        arg = self.buf(F, "arg", nul=True)
        r = self.tr.call("a_str_catf", self.s, fmt, arg, ret="i32")
        if failed_now(ex):
            ex.check(r == 0, "catf:allocation-failure-not-reported", "r=%s" % r)
            raise OpFailed()
        ex.check(r == L, "catf:returns-formatted-length", "r=%s L=%d" % (r, L))
        self.model += F
        self.check("catf", True)

    def in_set(self, b, sset):
        if sset is None:
            return is_space_expr(b)
        return disj([beq(b, s) for s in sset])

    def trim_args(self):
        ex = self.ex
        k = ex.pick([0, 1, 2], "trim_setlen")
        if k == 0:
            return None, 0, 0
        sset = self.sym_bytes(k, "set")
        return sset, self.buf(sset, "set"), k

    def op_trim(self, which="trim", term=True):
        ex = self.ex
        sset, a, k = self.trim_args()
        before = len(self.model)
        self.call("a_str_%s%s" % (which, "" if term else "_"), a, k, ret="void")
        m = list(self.model)
        if which in ("rtrim", "trim"):
            while m and ex.branch(self.in_set(m[-1], sset)):
                m.pop()
        if which in ("ltrim", "trim"):
            while m and ex.branch(self.in_set(m[0], sset)):
                m.pop(0)
        self.model = m
        self.check(which + ("" if term else "_"), term and len(m) < before)

    def op_rtrim(self): self.op_trim("rtrim")
    def op_ltrim(self): self.op_trim("ltrim")
    def op_trim_(self): self.op_trim("trim", False)
    def op_rtrim_(self): self.op_trim("rtrim", False)
    def op_ltrim_(self): self.op_trim("ltrim", False)

    def op_setn(self):
        ex = self.ex
        n = ex.fresh_bv("setn", 64)
        ptr, num, mem = self.cur()
        rc = self.tr.call("w_str_setn", self.s, n, ret="i32")
        if is_sym(rc):
            rc = ex.concretize(rc)
        if rc == 0:
            ex.check(z3.ULE(n, mem) if is_sym(n) else n <= mem, "setn:accepted-length-beyond-capacity")
            k = ex.concretize(n)
            self.model = self.model[:k] + (ex.read_bytes(ptr + len(self.model), k - len(self.model)) if k > len(self.model) else [])
        else:
            ex.check(rc == A_OBOUNDS, "setn:error-code")
            ex.check(z3.UGT(n, mem) if is_sym(n) else n > mem, "setn:refused-valid-length")
        self.check("setn")

    def op_setm(self):
        ex = self.ex
        m = ex.pick([0, 1, 8, 9, 17], "setm")
        rc = self.call("a_str_setm", m, ret="i32")
        succeeded(ex, rc == 0, "setm:unexpected-failure")
        ex.check(self.cur()[2] >= m, "setm:capacity-not-reached")
        self.check("setm")

    def op_exit(self):
        ex = self.ex
        ptr, num, mem = self.cur()
        num = ex.concretize(num, limit=32) if is_sym(num) else num
        p = self.call("a_str_exit", ret="ptr")
        ex.check(p == ptr or (ptr != 0 and p != 0), "exit:returns-the-block")
        ex.check(self.cur() == (0, 0, 0), "exit:object-not-emptied")
        if p:
            o = ex.obj_at(p)
            ex.check(o is not None and o.alive and o.base == p, "exit:returned-block-not-owned")
            if not self.tr.owned(p):
                self.tr.adopt(p, o.size, "exit_blk")
            ex.check(num < o.size, "exit:no-room-for-terminator-in-returned-block", "num=%d block=%d" % (num, o.size))
            got = ex.read_bytes(p, num + 1)
            ex.check(bytes_eq(got[:num], self.model), "exit:content-differs")
            ex.check(beq(got[num], 0), "exit:returned-string-not-nul-terminated")
            self.tr.call("free", p, ret="void")
        self.model = []

    def op_cmp(self):
        ex = self.ex
        n = ex.pick([0, 1, 3], "cmp_n")
        other = self.sym_bytes(n, "rhs")
        a = self.buf(other, "rhs") if n else self.buf([], "rhs")
        cz = lambda v: ex.concretize(v) if is_sym(v) else v
        rc = cz(self.call("a_str_cmpn", a, n, ret="i32"))
        self.check_sign(rc, self.model, other, "cmpn")
        o = Str(ex, self.tr, 8 if n else 0, n, False, "o")
        rc = cz(self.call("a_str_cmp", o.s, ret="i32"))
        self.check_sign(rc, self.model, o.model, "cmp")
        nz = self.sym_bytes(n, "cz", nonzero=True)
        rc = cz(self.call("a_str_cmps", self.buf(nz, "cz", nul=True), ret="i32"))
        self.check_sign(rc, self.model, nz, "cmps")
        self.check("cmp")

    def check_sign(self, rc, xs, ys, what):
        ex = self.ex
        lt, gt = lex(xs, ys)
        src = rc - (1 << 32) if rc >> 31 else rc
        if src < 0:
            ex.check(lt, what + ":negative-but-not-less")
        elif src > 0:
            ex.check(gt, what + ":positive-but-not-greater")
        else:
            ex.check(z3.And(z3.Not(b2z(lt)), z3.Not(b2z(gt))), what + ":zero-but-not-equal")

    def op_utf_catc(self):
        ex = self.ex
        c = ex.fresh_bv("cp", 32)
        if ex.concrete is None:
            ex.add(z3.And(z3.UGE(c, 1), z3.ULE(c, 0x7FFFFFFF)))
        rc = self.call("a_utf_catc", c, ret="i32")
        succeeded(ex, rc == 0, "utf_catc:unexpected-failure")
        ptr, num, mem = self.cur()
        num = ex.concretize(num, limit=32) if is_sym(num) else num
        k = num - len(self.model)
        ex.check(1 <= k <= 6, "utf_catc:appended-length")
        new = ex.read_bytes(ptr + len(self.model), k)
        self.model += new
        self.check("utf_catc", True)
        # the appended bytes decode back to the code point
        val = self.tr.alloc(4, "val")
        n = self.tr.call("a_utf_decode", ptr + num - k, k, val, ret="i32")
        ex.check(n == k, "utf_catc:decode-length")
        ex.check(eq32(ex.load(val, I32), c), "utf_catc:decode-value")
        if num == k:     # only the encoded character: the length counter sees exactly one code point
            stop = self.tr.alloc(8, "stop")
            cnt = self.tr.call("a_utf_len", self.s, stop, ret="i64")
            ex.check(cnt == 1, "utf_len:one-code-point")
            ex.check(ex.load(stop, I64) == k, "utf_len:stop-is-consumed-bytes")

    def op_swap(self):
        ex = self.ex
        o = Str(ex, self.tr, 8, 2, True, "o")
        self.tr.call("a_str_swap", self.s, o.s, ret="void")
        self.model, o.model = o.model, self.model
        self.check("swap-lhs")
        o.check("swap-rhs")


def b2z(c):
    return z3.BoolVal(c) if isinstance(c, bool) else c


def lex(xs, ys):
    """(xs < ys, xs > ys) bytewise lexicographic, then length; as z3 Bool or Python bool."""
    lt, gt = z3.BoolVal(False), z3.BoolVal(False)
    eqs = z3.BoolVal(True)
    for a, b in zip(xs, ys):
        a, b = bv(a, 8), bv(b, 8)
        lt = z3.Or(lt, z3.And(eqs, z3.ULT(a, b)))
        gt = z3.Or(gt, z3.And(eqs, z3.UGT(a, b)))
        eqs = z3.And(eqs, a == b)
    if len(xs) < len(ys):
        lt = z3.Or(lt, eqs)
    elif len(xs) > len(ys):
        gt = z3.Or(gt, eqs)
    return z3.simplify(lt), z3.simplify(gt)


def eq32(a, b):
    if isinstance(a, int) and isinstance(b, int):
        return (a & 0xFFFFFFFF) == (b & 0xFFFFFFFF)
    return bv(a, 32) == bv(b, 32)


def low8(c):
    return c & 0xFF if isinstance(c, int) else z3.Extract(7, 0, c)


OPS = ["catc", "catc_", "getc", "getc_", "catn", "catn_", "cats", "cats_", "cat", "cat_", "getn", "getn_", "catf", "trim", "rtrim", "ltrim",
       "trim_", "rtrim_", "ltrim_", "setn", "setm", "exit", "cmp", "utf_catc", "swap"]
STATES = [(0, 0, False), (8, 0, True), (8, 3, True), (8, 7, True), (8, 8, False), (8, 3, False), (16, 8, True), (16, 15, True), (16, 16, False)]


def harness(state, ops):
    mem, num, term = state

    def h(ex):
        tr = Tr(ex, PRELUDE)
        ex.path_tags = ["str", "mem=%d num=%d %s" % (mem, num, "terminated" if term else "raw")] + list(ops)
        s = Str(ex, tr, mem, num, term)
        for o in ops:
            getattr(s, "op_" + o)()
    return h


def builder(p):
    state, ops = p
    return "mem%d-num%d-%s/%s" % (state[0], state[1], "term" if state[2] else "raw", "+".join(ops)), harness(state, ops)


def main():
    cfg = gen_config()
    res = Result(PID)
    T = tier()
    inst = [(st, (o,)) for st in STATES for o in OPS]
    if T == "thorough":
        seq2 = ["catn_", "catc_", "catf", "getn", "rtrim", "ltrim", "exit", "utf_catc", "cats"]
        for st in [(0, 0, False), (8, 7, True), (8, 8, False)]:
            for a, b, c in itertools.product(seq2, repeat=3):
                if a == "exit" or b == "exit":
                    continue
                inst.append((st, (a, b, c)))
    else:
        for st in [(0, 0, False), (8, 7, True)]:
            for a, b in itertools.product(["catn_", "catc_", "catf", "exit", "getn", "cats"], repeat=2):
                if a == "exit":
                    continue
                inst.append((st, (a, b)))
    res.functions.update(["a_str_" + f for f in ["new", "die", "ctor", "dtor", "swap", "exit", "setm_", "setm", "cmp_", "cmp", "cmpn", "cmps", "getc_", "getc", "catc_", "catc",
                                                  "getn_", "getn", "catn_", "catn", "cats_", "cats", "cat_", "cat", "catv", "catf", "rtrim_", "rtrim", "ltrim_", "ltrim",
                                                  "trim_", "trim", "setn", "setn_", "at", "of"]] + ["a_utf_len", "a_utf_catc", "a_utf_encode", "a_utf_decode", "a_utf_length"])
    res.bounds = {"pre-states": "constructed: empty (no block) or capacity 8/16 with lengths %s, content bytes symbolic (all 256 values), terminated and raw (after the non-terminating variants) states" % sorted(set(s[1] for s in STATES)),
                  "operations": "one operation (quick: also 36 pairs; thorough: triples) with symbolic arguments: characters, appended blocks of 0/1/3/9 bytes (9 crosses the reallocation boundary), C strings, formatter output of length 0/1/4/8/9, trim sets of 0 (whitespace), 1, 2 symbolic bytes, symbolic 64-bit lengths for getn/setn, symbolic code points"}
    res.outside = ["formatter failure (vsnprintf returning -1)", "locale other than C; isspace for the host table only", "contents longer than 16 bytes before the operation",
                   "a_str_setm_ / a_str_setn_ (unchecked primitives; preconditions documented)"]
    res.assumptions = ["vsnprintf stub: writes min(L, n-1) bytes of an arbitrary NUL-free byte string F plus NUL when n > 0 and returns L (C99 7.19.6.12); native replay uses the format \"%s\" with F",
                       "isspace: the host's C-locale classification table (384 entries) loaded as a constant object",
                       "allocation never fails here (C07 covers failure)"]
    res.stubs = ["vsnprintf", "__ctype_b_loc", "llvm.va_start/va_copy/va_end"]
    e2.run_e2(res, cfg, ["str.c", "utf.c", "a.c"], inst, builder, wrappers=[TU], group="str", validate_every=11,
              replay_srcs=repo_sources(["str.c", "utf.c", "a.c", "vec.c", "buf.c", "que.c"]) + [TU], time_budget=150 if T == "quick" else 1500)
    e2.finish_coverage(res, must_cover=["a_str_catv", "a_str_exit", "a_str_rtrim_", "a_str_ltrim_", "a_str_getn", "a_utf_catc"],
                       report_funcs=set(f for f in res.functions))
    return res.finish()


if __name__ == "__main__":
    sys.exit(main())
