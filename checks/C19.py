"""C19: isqrt, gcd/lcm, bit reversal, byte-order accessors — E1 (CBMC), DESIGN.md section 4/C19."""
import os, sys
from vcommon import *
from e1 import H, run_e1, replay_file

PID = "C19"
F = os.path.join(VERIF, "harness", "C19", "c19.c")
SRCS = ["math.c", "a.c"]


def main():
    cfg = gen_config()
    if os.environ.get("VERIF_REPLAY"):
        return replay_file(cfg, os.environ["VERIF_REPLAY"])
    res = Result(PID)
    T = tier()
    B = 20 if T == "quick" else 26
    W = 1024
    hs = []
    # isqrt: every x < 2^B partitioned by bit length, and windows around every power of two
    for k in range(0, B):
        lo, hi = (0, 1) if k == 0 else (1 << k, (1 << (k + 1)) - 1)
        hs.append(H("sqrt32/bits%02d" % k, F, "h_sqrt32_range", SRCS, defs=("SQ_LO=%du" % lo, "SQ_HI=%du" % hi), unwind=10))
        hs.append(H("sqrt64/bits%02d" % k, F, "h_sqrt64_range", SRCS, defs=("SQ64_LO=%dull" % lo, "SQ64_HI=%dull" % hi), unwind=10))
    for k in range(B, 33):
        lo, hi = (1 << k) - W, min((1 << k) + W, (1 << 32) - 1)
        hs.append(H("sqrt32/window2^%02d" % k, F, "h_sqrt32_range", SRCS, defs=("SQ_LO=%du" % lo, "SQ_HI=%du" % hi), unwind=10))
    for k in range(B, 65):
        lo, hi = (1 << k) - W, min((1 << k) + W, (1 << 64) - 1)
        hs.append(H("sqrt64/window2^%02d" % k, F, "h_sqrt64_range", SRCS, defs=("SQ64_LO=%dull" % lo, "SQ64_HI=%dull" % hi), unwind=10))
    gb, lb, lpb = (8, 6, 12) if T == "quick" else (11, 8, 16)
    for w in ("32", "64"):
        D = ("GCD_BITS=%d" % gb, "LCM_BITS=%d" % lb, "LCMP_BITS=%d" % lpb)
        hs.append(H("gcd%s/divides" % w, F, "h_gcd%s_divides" % w, SRCS, defs=D, unwind=20))
        hs.append(H("gcd%s/greatest" % w, F, "h_gcd%s_greatest" % w, SRCS, defs=D, unwind=20))
        hs.append(H("lcm%s/product" % w, F, "h_lcm%s" % w, SRCS, defs=D, unwind=20))
        hs.append(H("lcm%s/product-vs-gcd-contract" % w, F, "h_lcm%s_contract" % w, SRCS, defs=D, unwind=2,
                    instrument=("--replace-calls", "a_u%s_gcd:stub_gcd%s" % (w, w)),
                    note="gcd replaced by any value meeting the gcd post-condition"))
    for sh in (16, 32, 48):
        D2 = ("GCD_BITS=%d" % (gb - 2), "GCD_SHIFT=%d" % sh)
        hs.append(H("gcd64/shifted-by-%d" % sh, F, "h_gcd64_shifted", SRCS, defs=D2, unwind=20))
        hs.append(H("gcd32/shifted-by-%d" % (sh // 2), F, "h_gcd32_shifted", SRCS, defs=D2, unwind=20))
    hs.append(H("gcd-edges", F, "h_gcd_edges", SRCS, unwind=4))
    hs.append(H("rev", F, "h_rev", SRCS, unwind=2))
    hs.append(H("endian", F, "h_endian", SRCS, unwind=9))
    res.functions.update(["a_u32_sqrt", "a_u64_sqrt", "a_u32_gcd", "a_u64_gcd", "a_u32_lcm", "a_u64_lcm",
                          "a_u8_rev", "a_u16_rev", "a_u32_rev", "a_u64_rev",
                          "a_u{16,32,64}_{get,set}{l,b}"])
    res.bounds = {"isqrt": "all x < 2^%d (both widths) + %d-wide windows around every 2^k up to the type maximum" % (B, 2 * W + 1),
                  "gcd/lcm": "gcd operands < 2^%d, lcm operands < 2^%d, lcm-vs-gcd-contract products < 2^%d; plus full-width identities with 0, 1, equal operands, and operands shifted to bit positions 16/32/48 (8/16/24 for 32 bit)" % (gb, lb, lpb),
                  "rev/endian": "full width", "unwind": "10 Newton steps / 20 Euclid steps, unwinding assertions on"}
    res.outside = ["isqrt for x >= 2^%d away from the power-of-two windows" % B, "gcd/lcm operands >= 2^%d in general position" % gb]
    res.assumptions = ["CBMC's bit-precise semantics of C (goto-cc build of src/math.c, src/a.c with the generated config header)",
                       "A_U32_BSR/A_U64_BSR resolve to __builtin_clz/__builtin_clzl as in the gcc build (checked: goto-cc defines __GNUC__)"]
    run_e1(res, cfg, hs, default_timeout=240 if T == "quick" else 1200)
    return res.finish()


if __name__ == "__main__":
    sys.exit(main())
