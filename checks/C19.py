"""C19: isqrt, gcd/lcm, bit reversal, byte-order accessors — E1 (CBMC), DESIGN.md section 4/C19."""
import os, sys
from vcommon import *
from e1 import H, run_e1, replay_file

PID = "C19"
F = os.path.join(VERIF, "harness", "C19", "c19.c")
SRCS = ["math.c", "a.c"]


NATIVE_T = """#include <stdio.h>
#include "a/a.h"
#include "a/math.h"
/* replay of a counterexample to a loop-invariant obligation of C19: exits 1 when the real function disagrees with the expected value */
int main(void)
{
    unsigned long long got = (unsigned long long)%(call)s;
    unsigned long long want = %(want)dull;
    printf("%(call)s = %%llu, expected %%llu\\n", got, want);
    return got != want;
}
"""


def native_try(cfg, res, fn, args, want, tag):
    """Run the real function natively on concrete arguments; returns (mismatch?, replay path)."""
    call = "%s(%s)" % (fn, ", ".join("%dull" % a for a in args))
    text = NATIVE_T % dict(call=call, want=want)
    path = res.save_replay("loop_%s_%s.c" % (fn, tag), text)
    exe = native_prog(cfg, path, repo_sources(SRCS), name="loopreplay_%s_%s" % (fn, tag), san=True)
    rc, so, se, _ = run([exe], timeout=60, env=dict(os.environ, ASAN_OPTIONS="detect_leaks=0"))
    return rc != 0, path, (so or "").strip()


SCAN_T = """#include <stdio.h>
#include "a/a.h"
#include "a/math.h"
/* C19: an isqrt obligation could not be proved on this tree (see the evidence); this program looks for a concrete input on which
   the real function violates r*r <= x < (r+1)*(r+1), among the neighbours of perfect squares r^2-1, r^2, r^2+2r for r = 2^k + d */
typedef unsigned __int128 u128;
int main(void)
{
    static const long long ds[] = {-2, -1, 0, 1, 2, 3, 77, 12345};
    for (int k = 1; k <= %(half)d; k++)
        for (unsigned i = 0; i < sizeof ds / sizeof *ds; i++)
        {
            u128 r = ((u128)1 << k) + (u128)ds[i];
            if (r == 0 || r >> %(half)d) { if (!(r >> %(half)d)) continue; r = ((u128)1 << %(half)d) - 1 - i; }
            u128 xs[3] = {r * r - 1, r * r, r * r + 2 * r};
            for (int j = 0; j < 3; j++)
            {
                if (xs[j] >> %(w)d) continue;
                %(ty)s x = (%(ty)s)xs[j];
                u128 s = %(fn)s(x);
                if (!(s * s <= x && x < (s + 1) * (s + 1)))
                {
                    printf("%(fn)s(%%llu) = %%llu: not the integer square root\\n", (unsigned long long)x, (unsigned long long)s);
                    return 1;
                }
            }
        }
    printf("no counterexample among the perfect-square neighbours\\n");
    return 0;
}
"""


def native_scan(cfg, res, fn, w):
    text = SCAN_T % dict(fn=fn, w=w, half=w // 2, ty="a_u%d" % w)
    path = res.save_replay("scan_%s.c" % fn, text)
    exe = native_prog(cfg, path, repo_sources(SRCS), name="scan_%s" % fn, san=True)
    rc, so, se, _ = run([exe], timeout=120, env=dict(os.environ, ASAN_OPTIONS="detect_leaks=0"))
    return rc != 0, path, (so or "").strip()


def loop_proofs(res, cfg):
    """Full-width, unbounded-iteration proofs of isqrt and gcd by loop invariant on the real IR (harness/llsym/loopinv.py)."""
    import math, time
    sys.path.insert(0, os.path.join(VERIF, "harness", "llsym"))
    sys.path.insert(0, os.path.join(VERIF, "lib", "llsym"))
    import build, loopinv
    mods = build.load_modules(cfg, SRCS)
    total = dict(paths=0, queries=0, solver_s=0.0)
    for fn, kind, w in (("a_u32_sqrt", "isqrt", 32), ("a_u64_sqrt", "isqrt", 64), ("a_u32_gcd", "gcd", 32), ("a_u64_gcd", "gcd", 64),
                        ("a_u32_lcm", "lcm", 32), ("a_u64_lcm", "lcm", 64)):
        t0 = time.time()
        try:
            obl, summ, ex, hdr = loopinv.run(mods, fn, kind, w)
        except Exception as e:
            res.error("loop-invariant proof of %s: %s" % (fn, e))
            continue
        total["paths"] += summ["paths"]
        total["queries"] += ex.stats["queries"]
        total["solver_s"] += ex.stats["solver_s"]
        if summ["status"] != "exhausted":
            res.error("loop-invariant proof of %s: exploration %s" % (fn, summ["status"]))
        cands = []          # concrete argument tuples worth trying natively
        groups = {}
        for name, verdict, dt, model in obl.items:
            g = groups.setdefault(name.split("/start=")[0], {"n": 0, "bad": [], "dt": 0.0})
            g["n"] += 1
            g["dt"] = max(g["dt"], dt)
            if verdict != "unsat":
                g["bad"].append((name, verdict, model))
                if model:
                    gv = lambda k: next((v for n, v in model.items() if n.split("!")[0] == k and v is not None), None)
                    if kind == "isqrt" and gv("x") is not None:
                        cands.append((gv("x"),))
                    if kind in ("gcd", "lcm"):
                        for pa, pb in (("a", "b"), ("ha", "hb")):
                            if gv(pa) is not None and gv(pb) is not None:
                                cands.append((gv(pa), gv(pb)))
        for f in ex.findings:
            if f.model:
                xs = [v for n, v in f.model.items() if n.split("!")[0] == "x"]
                if kind == "isqrt" and xs:
                    cands.append((int(xs[0]),))
            if f.kind not in ("PROP",):
                groups.setdefault("%s/executor-finding/%s" % (fn, f.label), {"n": 1, "bad": [(f.label, f.kind, None)], "dt": 0.0})
        confirmed = None
        for k, args in enumerate(dict.fromkeys(cands)):
            if kind == "lcm":
                want = 0 if 0 in args else args[0] * args[1] // math.gcd(*args)
                if want >= 2 ** w:
                    continue            # not representable: nothing is claimed
            else:
                want = math.isqrt(args[0]) if kind == "isqrt" else math.gcd(*args)
            try:
                bad, path, out = native_try(cfg, res, fn, args, want, "%d" % k)
            except MachineryError as e:
                res.error("native replay for %s does not build: %s" % (fn, str(e)[-300:]))
                continue
            if bad:
                confirmed = (args, path, out)
                break
        if not confirmed and kind == "isqrt" and any(g["bad"] for g in groups.values()):
            # nothing proved and no model to try (e.g. code the executor cannot encode, such as a floating-point shortcut):
            # look for a replayable input among the neighbours of perfect squares before giving up with a machinery error
            try:
                bad, path, out = native_scan(cfg, res, fn, w)
                if bad:
                    confirmed = (("scan",), path, out)
            except MachineryError as e:
                res.error("native scan for %s does not build: %s" % (fn, str(e)[-300:]))
        for gname, g in sorted(groups.items()):
            ok = not g["bad"]
            res.ob("loop-invariant/" + gname, "holds" if ok else ("violated" if confirmed else "inconclusive"), engine="llsym+z3-int", obligations=g["n"], max_query_s=round(g["dt"], 3))
            if not ok and not confirmed:
                res.error("loop-invariant obligation %s not proved (%s) and no concrete counterexample reproduces natively: %s" % (gname, g["bad"][0][1], g["bad"][0][2]))
        if confirmed:
            args, path, out = confirmed
            res.violation("loop-invariant/%s" % fn, "%s%s: %s (counterexample to the %s obligation, reproduced natively)" % (fn, args, out, "loop-invariant"), replay=path)
        res.extra.setdefault("loop_invariant_proofs", {})[fn] = dict(header=hdr, paths=summ["paths"], obligations=len(obl.items), wall_s=round(time.time() - t0, 1),
                                                                    width=w, bound="none (inductive step over one symbolic iteration of the real loop body)")
    res.queries += total["queries"]
    res.solver_s += total["solver_s"]
    res.paths += total["paths"]
    res.functions.update(["a_u32_sqrt / a_u64_sqrt / a_u32_gcd / a_u64_gcd (+ a_u32_lcm / a_u64_lcm against the gcd contract): loop-invariant proof on the clang IR (llsym), obligations over mathematical integers (z3)"])


def main():
    cfg = gen_config()
    if os.environ.get("VERIF_REPLAY", "").endswith(".c"):
        exe = native_prog(cfg, os.environ["VERIF_REPLAY"], repo_sources(SRCS), name="loopreplay_cli", san=True)
        rc, so, se, _ = run([exe], timeout=60, env=dict(os.environ, ASAN_OPTIONS="detect_leaks=0"))
        sys.stdout.write(so or "")
        if rc != 0:
            print("VIOLATION property=%s replay=%s" % (PID, os.environ["VERIF_REPLAY"]))
        return 1 if rc != 0 else 0
    if os.environ.get("VERIF_REPLAY"):
        return replay_file(cfg, os.environ["VERIF_REPLAY"])
    res = Result(PID)
    T = tier()
    B = 20 if T == "quick" else 26
    W = 1024
    hs = []
    # isqrt: every x < 2^B partitioned by bit length, and windows around every power of two
    for k in range(0, B):
        lo, hi = (0, 1) if k == 0 else (1 << k, (1 << (k + 1)) - 1)
        hs.append(H("sqrt32/bits%02d" % k, F, "h_sqrt32_range", SRCS, defs=("SQ_LO=%du" % lo, "SQ_HI=%du" % hi), unwind=10))
        hs.append(H("sqrt64/bits%02d" % k, F, "h_sqrt64_range", SRCS, defs=("SQ64_LO=%dull" % lo, "SQ64_HI=%dull" % hi), unwind=10))
    for k in range(B, 33):
        lo, hi = (1 << k) - W, min((1 << k) + W, (1 << 32) - 1)
        hs.append(H("sqrt32/window2^%02d" % k, F, "h_sqrt32_range", SRCS, defs=("SQ_LO=%du" % lo, "SQ_HI=%du" % hi), unwind=10))
    for k in range(B, 65):
        lo, hi = (1 << k) - W, min((1 << k) + W, (1 << 64) - 1)
        hs.append(H("sqrt64/window2^%02d" % k, F, "h_sqrt64_range", SRCS, defs=("SQ64_LO=%dull" % lo, "SQ64_HI=%dull" % hi), unwind=10))
    gb, lb, lpb = (8, 6, 12) if T == "quick" else (11, 8, 16)
    for w in ("32", "64"):
        D = ("GCD_BITS=%d" % gb, "LCM_BITS=%d" % lb, "LCMP_BITS=%d" % lpb)
        # thorough: the 2^11 operand bound sits at the edge of what SAT decides in 1200 s (under load it does not); since the
        # loop-invariant proof above covers the full width these harnesses are the bug-finding half and may be dropped
        hs.append(H("gcd%s/divides" % w, F, "h_gcd%s_divides" % w, SRCS, defs=D, unwind=20, droppable=(T == "thorough")))
        hs.append(H("gcd%s/greatest" % w, F, "h_gcd%s_greatest" % w, SRCS, defs=D, unwind=20, droppable=(T == "thorough")))
        hs.append(H("lcm%s/product" % w, F, "h_lcm%s" % w, SRCS, defs=D, unwind=20))
        hs.append(H("lcm%s/product-vs-gcd-contract" % w, F, "h_lcm%s_contract" % w, SRCS, defs=D, unwind=2,
                    instrument=("--replace-calls", "a_u%s_gcd:stub_gcd%s" % (w, w)),
                    note="gcd replaced by any value meeting the gcd post-condition"))
    for sh in (16, 32, 48):
        D2 = ("GCD_BITS=%d" % (gb - 2), "GCD_SHIFT=%d" % sh, "GCD_BITS32=%d" % min(gb - 2, 32 - sh // 2))    # shifted operands must still fit the word
        hs.append(H("gcd64/shifted-by-%d" % sh, F, "h_gcd64_shifted", SRCS, defs=D2, unwind=20))
        hs.append(H("gcd32/shifted-by-%d" % (sh // 2), F, "h_gcd32_shifted", SRCS, defs=D2, unwind=20))
    hs.append(H("gcd-edges", F, "h_gcd_edges", SRCS, unwind=4))
    hs.append(H("rev", F, "h_rev", SRCS, unwind=2))
    hs.append(H("endian", F, "h_endian", SRCS, unwind=9))
    res.functions.update(["a_u32_sqrt", "a_u64_sqrt", "a_u32_gcd", "a_u64_gcd", "a_u32_lcm", "a_u64_lcm",
                          "a_u8_rev", "a_u16_rev", "a_u32_rev", "a_u64_rev",
                          "a_u{16,32,64}_{get,set}{l,b}"])
    res.bounds = {"isqrt": "all x < 2^%d (both widths) + %d-wide windows around every 2^k up to the type maximum" % (B, 2 * W + 1),
                  "gcd/lcm": "gcd operands < 2^%d, lcm operands < 2^%d, lcm-vs-gcd-contract products < 2^%d; plus full-width identities with 0, 1, equal operands, and operands shifted to bit positions 16/32/48 (8/16/24 for 32 bit)" % (gb, lb, lpb),
                  "rev/endian": "full width", "unwind": "10 Newton steps / 20 Euclid steps, unwinding assertions on"}
    res.bounds["loop-invariant proofs"] = ("isqrt, gcd and lcm (both widths): every input of the full width, any number of iterations - base case (every power-of-two start value, bit-vector domain), "
                                           "one symbolic iteration of the real loop body from an arbitrary state satisfying the invariant, and the exit state; obligations translated from the executor's bit-vector "
                                           "terms to integer arithmetic with the mod-2^w semantics kept and decided by z3 (isqrt: 1 <= x1 <= 2^(w/2) and (x1+1)^2 > x; gcd: the common divisors of (a,b) are those of the arguments, "
                                           "proved as a chain of lemmas with explicit divisibility witnesses)")
    res.outside = ["the CBMC harnesses (bit-precise, with native replay) cover isqrt only for x < 2^%d and windows around powers of two, gcd/lcm only for operands < 2^%d: beyond that the claim rests on the loop-invariant proofs" % (B, gb),
                   "lcm at full width is decided against gcd's contract (the contract is what the gcd proof establishes): result * gcd = product whenever a*b/gcd is representable",
                   "pre-loop constraints the integer translator cannot express (count-leading-zeros) are dropped from the step/exit obligations - fewer assumptions, so the proofs stand; the base case is decided bit-precisely per start value"]
    res.assumptions = ["CBMC's bit-precise semantics of C (goto-cc build of src/math.c, src/a.c with the generated config header)",
                       "A_U32_BSR/A_U64_BSR resolve to __builtin_clz/__builtin_clzl as in the gcc build (checked: goto-cc defines __GNUC__)"]
    loop_proofs(res, cfg)
    run_e1(res, cfg, hs, default_timeout=240 if T == "quick" else 1200)
    return res.finish()


if __name__ == "__main__":
    sys.exit(main())
