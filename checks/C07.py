"""C07: allocation failure never corrupts a container or leaks — E2 (llsym) with a symbolic allocator,
DESIGN.md section 4/C07."""
import os, sys, copy, importlib
from vcommon import *
import e2
sys.path.insert(0, os.path.join(VERIF, "harness", "llsym"))
sys.path.insert(0, os.path.join(VERIF, "checks"))
import core, z3
from replay import Tr
import seqcheck
from seqcheck import Seq
from fault import Fault, OpFailed
C05 = importlib.import_module("C05")
C06 = importlib.import_module("C06")

PID = "C07"
TU1 = os.path.join(VERIF, "harness", "tu", "lists_tu.c")
TU2 = os.path.join(VERIF, "harness", "tu", "seq_tu.c")
I64 = core.ir.int_t(64)

BASE_PRELUDE = seqcheck.C_PRELUDE


def faulted(ex, f, obj, run_op, check_state, what):
    """Run one operation with the allocator armed; on a reported failure the container must be unchanged
    and the same operation must succeed once memory is available."""
    model0 = copy.copy(obj.model)
    siz0 = getattr(obj, "siz", None)
    f.arm()
    failed = False
    try:
        run_op()
    except OpFailed:
        failed = True
    f.disarm()
    f.failed_in_op = False
    if failed:
        obj.model = model0
        if siz0 is not None:
            obj.siz = siz0
        check_state(what + ":after-reported-failure")
        run_op()          # healthy allocator: must succeed now (an 'unexpected-failure' would be reported)
    return failed


def vec_harness(kind, siz, mem, num, op):
    def h(ex):
        f = Fault(ex)
        tr = Tr(ex, lambda: BASE_PRELUDE + f.c_prelude())
        ex.path_tags = [kind, "siz=%d mem=%d num=%d" % (siz, mem, num), op]
        if op == "new":
            f.arm()
            if kind == "vec":
                v = tr.call("a_vec_new", 2, ret="ptr")
            else:
                v = tr.call("a_buf_new", 2, 3, ret="ptr")
            f.disarm()
            if f.failed_in_op:
                ex.check(v == 0, "new:allocation-failure-not-reported")
                f.failed_in_op = False
                v = tr.call("a_%s_new" % kind, 2, *([3] if kind == "buf" else []), ret="ptr")
            ex.check(v != 0, "new:unexpected-failure")
            tr.call("a_%s_die" % kind, v, 0, ret="void")
            f.check_ledger("new+die")
            return
        s = Seq(ex, kind, siz, mem, num)
        s.tr = tr
        faulted(ex, f, s, lambda: s.op(op), s.check_state, op)
        # destroy: the structure's block must be released exactly once
        if kind == "vec":
            tr.call("a_vec_dtor", s.hdr, 0, ret="void")
            blk = ex.load(s.hdr, I64)
            ex.check(blk == 0, "dtor:block-pointer-not-cleared")
            if s.blk and ex.obj_at(s.blk).alive:
                ex.check(False, "dtor:original-block-leaked")
        else:
            tr.call("a_buf_die", s.hdr, 0, ret="void")      # header and payload are one block
        f.check_ledger(op + "+destroy")
    return h


def que_harness(hist, op):
    def h(ex):
        f = Fault(ex)
        tr = Tr(ex, lambda: C05.PRELUDE + f.c_prelude())
        ex.path_tags = ["que", hist, op]
        q = C05.Que(ex, tr, 2)
        for c in hist:
            {"F": lambda: q.push("fore"), "B": lambda: q.push("back"), "f": lambda: q.pull("fore"), "b": lambda: q.pull("back")}[c]()

        def run():
            if op in ("push_fore", "push_back"):
                q.push(op[5:])
            elif op in ("pull_fore", "pull_back"):
                q.pull(op[5:])
            else:
                getattr(q, "op_" + op)()
        faulted(ex, f, q, run, q.check, op)
        tr.call("a_que_dtor", q.q, 0, ret="void")
        f.check_ledger(op + "+dtor")
    return h


def str_harness(state, op):
    mem, num, term = state

    def h(ex):
        f = Fault(ex)
        tr = Tr(ex, lambda: f.c_prelude())
        ex.path_tags = ["str", "mem=%d num=%d" % (mem, num), op]
        s = C06.Str(ex, tr, mem, num, term)
        faulted(ex, f, s, lambda: getattr(s, "op_" + op)(), lambda w: s.check(w, term), op)
        tr.call("a_str_dtor", s.s, ret="void")
        f.check_ledger(op + "+dtor")
    return h


def builder(p):
    if p[0] in ("vec", "buf"):
        return "%s/siz%d-mem%d-num%d/%s" % p, vec_harness(*p)
    if p[0] == "que":
        return "que/%s/%s" % (p[1] or "-", p[2]), que_harness(p[1], p[2])
    return "str/mem%d-num%d-%s/%s" % (p[1][0], p[1][1], "term" if p[1][2] else "raw", p[2]), str_harness(p[1], p[2])


def main():
    cfg = gen_config()
    res = Result(PID, level="model_checking")
    T = tier()
    inst = []
    vec_ops = ["push_back", "push_fore", "insert", "push_sort", "store", "setn", "setm"]
    for kind in ("vec", "buf"):
        inst.append((kind, 0, 0, 0, "new"))
        states = [(2, 0, 0), (2, 2, 2), (2, 2, 1)] if T == "quick" else [(1, 0, 0), (2, 0, 0), (2, 2, 2), (2, 2, 1), (3, 3, 3), (3, 1, 1)]
        for (siz, mem, num) in states:
            for o in (vec_ops if kind == "vec" else ["setm", "push_back", "store", "insert"]):
                inst.append((kind, siz, mem, num, o))
    hs = C05.histories(2 if T == "quick" else 3)
    for hst in ("B" * 9, "B" * 9 + "f", "B" * 9 + "fb", "B" * 10 + "fff"):      # more nodes than one pool growth step, with and without recycled nodes in the pool
        for o in ("drop", "setz", "pull_fore", "remove", "push_back"):
            inst.append(("que", hst, o))
    for hst in hs:
        for o in ["push_fore", "push_back", "insert", "push_sort", "pull_fore", "pull_back", "remove", "drop", "setz"]:
            inst.append(("que", hst, o))
    for st in [(0, 0, False), (8, 7, True), (8, 5, True), (8, 8, False), (16, 15, True)]:
        for o in ["catc", "catc_", "catn", "catn_", "cats", "cat", "catf", "setm", "utf_catc"]:
            inst.append(("str", st, o))
    res.functions.update(["a_alloc (replaceable pointer)", "a_alloc_", "a_vec_new/die/dtor/setm/setn/insert/push_*/push_sort/store", "a_buf_new/die/setm",
                          "a_que_new_/die_/push_*/pull_*/insert/remove/push_sort/drop/setz/dtor", "a_str_setm/setm_/catc/catn/cats/cat/catv/catf/dtor", "a_utf_catc"])
    res.bounds = {"faults": "every request with size > 0 made during the operation under test gets its own symbolic fail/succeed decision (the executor forks): all subsets of failing requests, which includes single faults at every position and failure of all requests from a position onward",
                  "histories": "vector/buffer: constructed states (capacity 0..3, spare and full); queue: every push/pull history of length <= %d; string: 4 constructed states; then one operation under faults, the same operation again with a healthy allocator, then destruction" % (2 if T == "quick" else 3)}
    res.outside = ["allocators returning unaligned or overlapping blocks", "a_str_exit under allocation failure (cannot report failure; it returns the unterminated block)",
                   "failures during the history that builds the state (the state-building operations run with a healthy allocator)"]
    res.assumptions = ["frees never fail; a failed realloc leaves the old block valid (ISO C)", "the ledger = blocks handed out by the allocator hook; all must be released after destruction"]
    res.stubs = ["a_alloc_: Python hook deciding failure symbolically, otherwise the real a_alloc_ (native replay: verif_alloc with the model's failure mask installed into a_alloc)"]
    srcs = ["vec.c", "buf.c", "que.c", "str.c", "utf.c", "a.c"]
    e2.run_e2(res, cfg, srcs, inst, builder, wrappers=[TU1, TU2], group="fault", validate_every=9, sigmap=lambda n: "/".join([n.split("/")[0], n.split("/")[-1]]),
              replay_srcs=repo_sources(srcs) + [TU1, TU2], time_budget=200 if T == "quick" else 1500)
    e2.finish_coverage(res, must_cover=["a_vec_setm", "a_que_die_", "a_que_new_", "a_str_setm_", "a_buf_setm"], report_funcs={"a_vec_setm", "a_que_die_", "a_que_new_", "a_str_setm_", "a_buf_setm", "a_que_drop", "a_que_setz", "a_str_catv"})
    return res.finish()


if __name__ == "__main__":
    sys.exit(main())
