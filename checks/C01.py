"""C01: AVL tree — E2 (llsym, bit-vector domain), DESIGN.md section 4/C01."""
import os, sys
from vcommon import *
import e2
sys.path.insert(0, os.path.join(VERIF, "harness", "llsym"))
import trees, treecheck

PID = "C01"


def main():
    treecheck.CFG.update(KIND="avl", PFX="a_avl")
    cfg = gen_config()
    res = Result(PID)
    T = tier()
    H, K = (3, 5) if T == "quick" else (4, 6)     # K = 7: the longest histories had not finished after 60 min (3 workers busy, the rest idle)
    shapes = [s for h in range(0, H + 1) for s in trees.avl_shapes(h)]
    inst = [("step", s, op) for s in shapes for op in ("insert", "remove", "search") if not (s is None and op == "remove")]
    if T == "quick":        # removal needs the deepest shapes (successor several levels below the victim): all height-4 shapes, remove only
        inst += [("step", s, "remove") for s in trees.avl_shapes(4)]
    hist = [("hist", s) for s in treecheck.op_strings(K)]
    res.functions.update(["a_avl_insert", "a_avl_insert_adjust", "a_avl_handle_growth", "a_avl_rotate", "a_avl_rotate2", "a_avl_remove",
                          "a_avl_handle_remove", "a_avl_handle_shrink", "a_avl_search", "a_avl_new_child", "a_avl_set_parent",
                          "a_avl_init", "a_avl_parent"])
    res.bounds = {"inductive step": "one insert / remove / search with symbolic key or victim from every AVL tree of height <= %d (%d shapes), keys symbolic under the in-order strict order%s" % (H, len(shapes), "; remove additionally from all 315 shapes of height 4" if T == "quick" else ""),
                  "histories": "all %d insert/remove patterns of length %d from the empty tree; keys and victims symbolic" % (len(hist), K),
                  "configuration": "A_SIZE_POINTER == 8 (packed parent word)"}
    res.outside = ["trees higher than %d as pre-states (reached only as results)" % H, "the unpacked struct variant (A_SIZE_POINTER < 4)",
                   "comparison callbacks that are not a strict weak order"]
    res.assumptions = ["llsym executes the clang-14 -O0 + sroa,mem2reg IR of src/avl.c; validated each run against the native build on sampled paths",
                       "keys are 64-bit signed integers compared by a strict total order; nodes are 16-byte aligned"]
    res.stubs = ["cmp callback: Python hook returning the symbolic sign of key(a) - key(b) (C replay: cmp_key)"]
    TB = 900 if T == "quick" else 3000
    e2.run_e2(res, cfg, ["avl.c"], inst, treecheck.builder, group="step", validate_every=7, time_budget=TB)
    e2.run_e2(res, cfg, ["avl.c"], hist, treecheck.builder, group="history", validate_every=5, time_budget=TB)
    e2.finish_coverage(res, must_cover=["a_avl_insert", "a_avl_remove", "a_avl_search", "a_avl_insert_adjust"],
                       report_funcs={"a_avl_insert", "a_avl_remove", "a_avl_search", "a_avl_insert_adjust"})
    return res.finish()


if __name__ == "__main__":
    sys.exit(main())
