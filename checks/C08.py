"""C08: LU / LDL^T / Cholesky — E2 (llsym, exact-real domain), DESIGN.md 4/C08."""
import os, sys, itertools
from fractions import Fraction
from vcommon import *
import e2
sys.path.insert(0, os.path.join(VERIF, "harness", "llsym"))
import core, z3
from replay import Tr
from realcheck import *

PID = "C08"
SUCCESS, FAILURE = 0, 1
ONE, ZERO = Fraction(1), Fraction(0)
LOG = z3.Function("LOG", z3.RealSort(), z3.RealSort())


def install_log(ex):
    def h_log(ex, x):
        if ex.concrete is not None:
            import math
            return Fraction(math.log(float(x))) if x > 0 else core.NF("nan")
        return LOG(R(x))
    ex.hooks["log"] = h_log


def leibniz(M, n):
    if n == 1:
        return M[0][0]
    tot = ZERO
    for perm in itertools.permutations(range(n)):
        inv = sum(1 for i in range(n) for j in range(i + 1, n) if perm[i] > perm[j])
        term = ONE
        for i in range(n):
            term = mul(term, M[i][perm[i]])
        tot = add(tot, term) if inv % 2 == 0 else sub(tot, term)
    return tot


def matmul(A, B, n):
    return [[ssum([mul(A[i][k], B[k][j]) for k in range(n)]) for j in range(n)] for i in range(n)]


def rows(flat, n):
    return [flat[i * n:(i + 1) * n] for i in range(n)]


def sym_matrix(ex, n, symmetric):
    A = [[None] * n for _ in range(n)]
    for i in range(n):
        for j in range(n):
            if symmetric and j > i:
                continue
            A[i][j] = ex.fresh_real("a%d%d" % (i, j))
    if symmetric:
        for i in range(n):
            for j in range(i + 1, n):
                A[i][j] = A[j][i]
    return A


def iarr(ex, tr, n, name):
    a = tr.alloc(4 * max(n, 1), name)
    for i in range(n):
        tr.store(a + 4 * i, 0xCDCDCDCD, 4)
    return a


def check_all(ex, got, exp, label):
    for i, (g, e) in enumerate(zip(got, exp)):
        ex.check(req(g, e), label, "element %d" % i)


def plu_harness(n, clause, special=None):
    def h(ex):
        tr = Tr(ex, "")
        install_log(ex)
        ex.path_tags = ["plu", "n=%d" % n, clause, str(special)]
        A0 = sym_matrix(ex, n, False)
        if special == "zero-column":
            j = ex.pick(list(range(n)), "zero_col")
            for i in range(n):
                A0[i][j] = ZERO
        elif special == "equal-rows":
            i = ex.pick(list(range(n)), "row_i")
            k = ex.pick(list(range(n)), "row_k")
            if i >= k:
                raise core.Infeasible()
            A0[k] = list(A0[i])
        A = Arr(ex, tr, n * n, "A", init=[A0[i][j] for i in range(n) for j in range(n)])
        p = iarr(ex, tr, n, "p")
        sg = iarr(ex, tr, 1, "sign")
        rc = tr.call("a_real_plu", n, A.addr, p, sg, ret="i32")
        if special:
            ex.check(rc == FAILURE, "plu:%s-must-be-reported-as-failure" % special, "rc=%s" % rc)
            return
        if rc != SUCCESS:
            ex.check(rc == FAILURE, "plu:unknown-return-code")
            return
        perm = [ex.load(p + 4 * i, I32) for i in range(n)]
        sign = ex.load(sg, I32)
        ex.check(all(isinstance(x, int) for x in perm) and sorted(perm) == list(range(n)), "plu:p-is-not-a-permutation", str(perm))
        inv = sum(1 for i in range(n) for j in range(i + 1, n) if perm[i] > perm[j])
        ex.check(sign == (1 if inv % 2 == 0 else 0xFFFFFFFF), "plu:sign-is-not-the-parity-of-the-permutation", "sign=%s perm=%s" % (sign, perm))
        LU = rows(A.get(), n)
        L = [[LU[i][j] if j < i else (ONE if i == j else ZERO) for j in range(n)] for i in range(n)]
        U = [[LU[i][j] if j >= i else ZERO for j in range(n)] for i in range(n)]
        PA = [A0[perm[i]] for i in range(n)]
        if clause == "factor":
            for i in range(n):
                for j in range(i):
                    ex.check(rle(rabs(L[i][j]), ONE), "plu:multiplier-exceeds-one", "L[%d][%d]" % (i, j))
            prod = matmul(L, U, n)
            for i in range(n):
                for j in range(n):
                    ex.check(req(prod[i][j], PA[i][j]), "plu:L*U-is-not-P*A", "element %d,%d" % (i, j))
            for f, M in (("L", L), ("U", U)):
                out = Arr(ex, tr, n * n, f)
                tr.call("a_real_plu_" + f, n, A.addr, out.addr, ret="void")
                check_all(ex, out.get(), [M[i][j] for i in range(n) for j in range(n)], "plu_%s:wrong-extraction" % f)
            P = Arr(ex, tr, n * n, "P")
            tr.call("a_real_plu_P", n, p, P.addr, ret="void")
            check_all(ex, P.get(), [ONE if j == perm[i] else ZERO for i in range(n) for j in range(n)], "plu_P:wrong-permutation-matrix")
            P_ = Arr(ex, tr, n * n, "Pt")
            tr.call("a_real_plu_P_", n, p, P_.addr, ret="void")
            check_all(ex, P_.get(), [ONE if perm[j] == i else ZERO for i in range(n) for j in range(n)], "plu_P_:not-the-transposed-permutation-matrix")
        elif clause == "solve":
            b = Arr(ex, tr, n, "b")
            x = Arr(ex, tr, n, "x")
            tr.call("a_real_plu_solve", n, A.addr, p, b.addr, x.addr, ret="void")
            xs = x.get()
            for i in range(n):
                ex.check(req(ssum([mul(A0[i][j], xs[j]) for j in range(n)]), b.v[i]), "plu_solve:A*x-is-not-b", "row %d" % i)
            Pb = Arr(ex, tr, n, "Pb")
            tr.call("a_real_plu_apply", n, p, b.addr, Pb.addr, ret="void")
            check_all(ex, Pb.get(), [b.v[perm[i]] for i in range(n)], "plu_apply:wrong-permutation-of-b")
        elif clause == "inv":
            tmp = Arr(ex, tr, n, "tmp")
            I1 = Arr(ex, tr, n * n, "inv")
            tr.call("a_real_plu_inv", n, A.addr, p, tmp.addr, I1.addr, ret="void")
            I2 = Arr(ex, tr, n * n, "inv_")
            tr.call("a_real_plu_inv_", n, A.addr, p, I2.addr, ret="void")
            g1, g2 = I1.get(), I2.get()
            check_all(ex, g2, g1, "plu_inv_:differs-from-plu_inv")
            prod = matmul(A0, rows(g1, n), n)
            for i in range(n):
                for j in range(n):
                    ex.check(req(prod[i][j], ONE if i == j else ZERO), "plu_inv:A*inverse-is-not-identity", "element %d,%d" % (i, j))
        elif clause == "det":
            det = tr.call("a_real_plu_det", n, A.addr, sign, ret="f64")
            ex.check(req(det, leibniz(A0, n)), "plu_det:not-the-determinant")
            s = tr.call("a_real_plu_sgndet", n, A.addr, sign, ret="i32")
            ex.check(conj([neg(R(det) > 0) if s != 1 else True, neg(R(det) < 0) if s != 0xFFFFFFFF else True, s in (1, 0xFFFFFFFF)]),
                     "plu_sgndet:not-the-sign-of-the-determinant", "sgndet=%s" % s)
            ln = tr.call("a_real_plu_lndet", n, A.addr, ret="f64")
            if ex.concrete is None:
                ex.check(req(ln, ssum([LOG(rabs(U[i][i])) for i in range(n)])), "plu_lndet:not-the-sum-of-log|U_ii|")
    return h


def sym_harness(kind, n, clause, special=None):
    """kind: 'ldl' | 'llt'."""
    def h(ex):
        tr = Tr(ex, "")
        install_log(ex)
        ex.path_tags = [kind, "n=%d" % n, clause, str(special)]
        A0 = sym_matrix(ex, n, True)
        if special == "zero-row-and-column":
            j = ex.pick(list(range(n)), "zero")
            for i in range(n):
                A0[i][j] = ZERO
                A0[j][i] = ZERO
        elif special == "equal-rows":
            i = ex.pick(list(range(n)), "row_i")
            k = ex.pick(list(range(n)), "row_k")
            if i >= k:
                raise core.Infeasible()
            # symmetric matrix with rows (and columns) i and k identical
            for j in range(n):
                A0[k][j] = A0[i][j]
                A0[j][k] = A0[j][i]
            A0[k][k] = A0[i][i]
            A0[i][k] = A0[i][i]
            A0[k][i] = A0[i][i]
        elif special == "non-positive-first-pivot":
            ex.assume(A0[0][0] <= 0)
        A = Arr(ex, tr, n * n, "A", init=[A0[i][j] for i in range(n) for j in range(n)])
        rc = tr.call("a_real_" + kind, n, A.addr, ret="i32")
        if special:
            ex.check(rc == FAILURE, "%s:%s-must-be-reported-as-failure" % (kind, special), "rc=%s" % rc)
            return
        if rc != SUCCESS:
            ex.check(rc == FAILURE, kind + ":unknown-return-code")
            return
        F = rows(A.get(), n)
        if kind == "ldl":
            L = [[F[i][j] if j < i else (ONE if i == j else ZERO) for j in range(n)] for i in range(n)]
            D = [F[i][i] for i in range(n)]
            LD = [[mul(L[i][k], D[k]) for k in range(n)] for i in range(n)]
            LT = [[L[j][i] for j in range(n)] for i in range(n)]
            recon = matmul(LD, LT, n)
            detexp = None
        else:
            L = [[F[i][j] if j <= i else ZERO for j in range(n)] for i in range(n)]
            LT = [[L[j][i] for j in range(n)] for i in range(n)]
            recon = matmul(L, LT, n)
        if clause == "factor":
            if kind == "llt":
                for i in range(n):
                    ex.check(rlt(ZERO, L[i][i]), "llt:diagonal-not-strictly-positive", "L[%d][%d]" % (i, i))
                # success only for positive definite input: leading principal minors are positive
                for k in range(1, n + 1):
                    ex.check(rlt(ZERO, leibniz([r[:k] for r in A0[:k]], k)), "llt:success-on-a-matrix-that-is-not-positive-definite", "leading minor %d" % k)
            for i in range(n):
                for j in range(i + 1):
                    ex.check(req(recon[i][j], A0[i][j]), "%s:factors-do-not-multiply-back-to-A" % kind, "element %d,%d" % (i, j))
            out = Arr(ex, tr, n * n, "L")
            tr.call("a_real_%s_L" % kind, n, A.addr, out.addr, ret="void")
            check_all(ex, out.get(), [L[i][j] for i in range(n) for j in range(n)], kind + "_L:wrong-extraction")
            if kind == "ldl":
                d = Arr(ex, tr, n, "d")
                tr.call("a_real_ldl_D", n, A.addr, d.addr, ret="void")
                check_all(ex, d.get(), D, "ldl_D:wrong-extraction")
        elif clause == "solve":
            b = Arr(ex, tr, n, "b")
            bv = list(b.v)
            tr.call("a_real_%s_solve" % kind, n, A.addr, b.addr, ret="void")
            xs = b.get()
            for i in range(n):
                ex.check(req(ssum([mul(A0[i][j], xs[j]) for j in range(n)]), bv[i]), kind + "_solve:A*x-is-not-b", "row %d" % i)
        elif clause == "inv":
            tmp = Arr(ex, tr, n, "tmp")
            I1 = Arr(ex, tr, n * n, "inv")
            tr.call("a_real_%s_inv" % kind, n, A.addr, tmp.addr, I1.addr, ret="void")
            I2 = Arr(ex, tr, n * n, "inv_")
            tr.call("a_real_%s_inv_" % kind, n, A.addr, I2.addr, ret="void")
            g1, g2 = I1.get(), I2.get()
            check_all(ex, g2, g1, kind + "_inv_:differs-from-inv")
            prod = matmul(A0, rows(g1, n), n)
            for i in range(n):
                for j in range(n):
                    ex.check(req(prod[i][j], ONE if i == j else ZERO), kind + "_inv:A*inverse-is-not-identity", "element %d,%d" % (i, j))
        elif clause == "det":
            det = tr.call("a_real_%s_det" % kind, n, A.addr, ret="f64")
            ex.check(req(det, leibniz(A0, n)), kind + "_det:not-the-determinant")
            ln = tr.call("a_real_%s_lndet" % kind, n, A.addr, ret="f64")
            if kind == "ldl":
                s = tr.call("a_real_ldl_sgndet", n, A.addr, ret="i32")
                ex.check(conj([neg(R(det) > 0) if s != 1 else True, neg(R(det) < 0) if s != 0xFFFFFFFF else True, s in (1, 0xFFFFFFFF)]),
                         "ldl_sgndet:not-the-sign-of-the-determinant", "sgndet=%s" % s)
                if ex.concrete is None:
                    ex.check(req(ln, ssum([LOG(rabs(F[i][i])) for i in range(n)])), "ldl_lndet:not-the-sum-of-log|D_i|")
            elif ex.concrete is None:
                ex.check(req(ln, ssum([mul(2, LOG(F[i][i])) for i in range(n)])), "llt_lndet:not-twice-the-sum-of-log-L_ii")
    return h


def builder(p):
    if p[0] == "plu":
        return "plu/n%d/%s" % (p[1], p[3] or p[2]), plu_harness(p[1], p[2], p[3])
    return "%s/n%d/%s" % (p[0], p[1], p[3] or p[2]), sym_harness(p[0], p[1], p[2], p[3])


def main():
    cfg = gen_config()
    res = Result(PID)
    T = tier()
    N = 4 if T == "quick" else 5
    inst, deep = [], []
    for n in range(1, N + 1):
        for cl in ("factor", "solve", "inv", "det"):
            if cl in ("inv", "det") and n > N - 1:
                continue
            # the largest orders of the thorough tier are attempted with a long solver limit; what z3 does not decide is listed as dropped
            tgt = deep if (n > 4 or (cl in ("inv", "det") and n > 3)) else inst
            tgt.append(("plu", n, cl, None))
            tgt.append(("ldl", n, cl, None))
            tgt.append(("llt", n, cl, None))
        if n <= 3:
            inst.append(("plu", n, "x", "zero-column"))
            inst.append(("ldl", n, "x", "zero-row-and-column"))
            inst.append(("llt", n, "x", "non-positive-first-pivot"))
            inst.append(("llt", n, "x", "zero-row-and-column"))
            if n >= 2:
                inst.append(("plu", n, "x", "equal-rows"))
                inst.append(("ldl", n, "x", "equal-rows"))
                inst.append(("llt", n, "x", "equal-rows"))
    res.functions.update(["a_real_plu", "a_real_plu_P", "a_real_plu_P_", "a_real_plu_L", "a_real_plu_U", "a_real_plu_apply", "a_real_plu_lower", "a_real_plu_lower_",
                          "a_real_plu_upper", "a_real_plu_upper_", "a_real_plu_solve", "a_real_plu_inv", "a_real_plu_inv_", "a_real_plu_det", "a_real_plu_lndet", "a_real_plu_sgndet",
                          "a_real_ldl", "a_real_ldl_L", "a_real_ldl_D", "a_real_ldl_lower", "a_real_ldl_upper", "a_real_ldl_upper_", "a_real_ldl_solve", "a_real_ldl_inv",
                          "a_real_ldl_inv_", "a_real_ldl_det", "a_real_ldl_lndet", "a_real_ldl_sgndet", "a_real_llt", "a_real_llt_L", "a_real_llt_lower", "a_real_llt_lower_",
                          "a_real_llt_upper", "a_real_llt_upper_", "a_real_llt_solve", "a_real_llt_inv", "a_real_llt_inv_", "a_real_llt_det", "a_real_llt_lndet",
                          "a_real_swap", "a_real_triL", "a_real_triL1", "a_real_triU", "a_real_diag1"])
    res.bounds = {"orders": "n = 1..%d (factor/solve), inverse and determinant up to n = %d; all matrix and right-hand-side entries symbolic reals; every pivoting pattern is a path%s" % (N, N - 1, "; orders 5 (factor/solve) and 4 (inverse/determinant) are attempted with a 300 s solver limit and a 1500 s budget per instance, undecided obligations are listed under dropped_from_claim" if deep else ""),
                  "failure clause": "zero column / zero row+column, two equal rows, non-positive first Cholesky pivot, for n <= 3"}
    res.outside = ["the rounding half of the statement: componentwise backward-error / residual bounds, agreement 'within rounding'", "n > %d" % N, "overflow/underflow, NaN inputs",
                   "lndet: log is an uninterpreted function (only the structure sum of log|diag| is decided)"]
    res.assumptions = ["symmetric classes: the input is exactly symmetric; positive definiteness is what the Cholesky routine itself establishes on success (checked via leading principal minors)",
                       "sqrt(x) = the unique y >= 0 with y*y = x"]
    res.stubs = ["log: uninterpreted real function LOG", "sqrt: fresh y >= 0 with y*y == x"]
    e2.run_e2(res, cfg, ["linalg_plu.c", "linalg_ldl.c", "linalg_llt.c", "linalg.c", "math.c", "a.c"], inst, builder, group="lu", validate_every=3, tol=1e-6,
              exec_attrs={"force_solver": True}, exec_opts={"solver": "nra"}, time_budget=600 if T == "quick" else 5000)
    if deep:
        e2.run_e2(res, cfg, ["linalg_plu.c", "linalg_ldl.c", "linalg_llt.c", "linalg.c", "math.c", "a.c"], deep, builder, group="lu-deep", validate_every=3, tol=1e-6,
                  exec_attrs={"force_solver": True}, exec_opts={"solver": "nra", "timeout_ms": 300000}, time_budget=1500, droppable=True)
    e2.finish_coverage(res, must_cover=["a_real_plu", "a_real_ldl", "a_real_llt", "a_real_plu_inv_", "a_real_ldl_inv_", "a_real_llt_inv_"],
                       report_funcs=set(f for f in res.functions))
    return res.finish()


if __name__ == "__main__":
    sys.exit(main())
