"""C11: real special functions and reductions — E2 (llsym, exact-real domain + contracts for libm), partial
(DESIGN.md 4/C11): quadrant/axis logic and exact-branch identities of the fallback implementations,
norms, coordinate conversions, reductions and data-movement helpers. Accuracy in ulps is outside."""
import os, sys, itertools, math
from fractions import Fraction
from vcommon import *
import e2
sys.path.insert(0, os.path.join(VERIF, "harness", "llsym"))
import core, z3
from replay import Tr
from realcheck import *

PID = "C11"
ZERO, ONE = Fraction(0), Fraction(1)
PI = Fraction(math.pi)              # the value of the A_REAL_PI literal (a double)
HALF_PI = PI / 2


def libm(ex):
    u = {}
    u["atan"] = UF(ex, "atan", lambda x, r: z3.And(r > -R(HALF_PI), r < R(HALF_PI), (r > 0) == (x > 0), (r < 0) == (x < 0)), increasing=True, odd=True, concrete=math.atan)
    u["log"] = UF(ex, "log", lambda x, r: z3.And((r > 0) == (x > 1), (r == 0) == (x == 1)), increasing=True, concrete=lambda v: math.log(v) if v > 0 else float("nan"))
    u["exp"] = UF(ex, "exp", lambda x, r: z3.And(r > 0, (r > 1) == (x > 0)), increasing=True, concrete=math.exp)
    u["sin"] = UF(ex, "sin", lambda x, r: z3.And(r >= -1, r <= 1), odd=True, concrete=math.sin)
    u["cos"] = UF(ex, "cos", lambda x, r: z3.And(r >= -1, r <= 1), even=True, concrete=math.cos)
    return u


def special_harness(fn, region):
    def h(ex):
        tr = Tr(ex, "")
        set_mode(ex)
        u = libm(ex)
        ex.path_tags = [fn, region]
        x = ex.fresh_real("x")
        if fn == "atan2":
            y = ex.fresh_real("y")
            sx, sy = region
            ex.assume({"+": rlt(ZERO, x), "-": rlt(x, ZERO), "0": req(x, ZERO)}[sx])
            ex.assume({"+": rlt(ZERO, y), "-": rlt(y, ZERO), "0": req(y, ZERO)}[sy])
            r = tr.call("a_real_atan2", y, x, ret="f64")
            lab = "atan2(y%s,x%s)" % (sy, sx)
            exp = {("+", "0"): ("eq", ZERO), ("-", "0"): ("eq", PI), ("0", "+"): ("eq", HALF_PI), ("0", "-"): ("eq", -HALF_PI), ("0", "0"): ("eq", ZERO),
                   ("+", "+"): ("in", ZERO, HALF_PI), ("+", "-"): ("in", -HALF_PI, ZERO), ("-", "+"): ("in", HALF_PI, PI), ("-", "-"): ("in", -PI, -HALF_PI)}[(sx, sy)]
            if exp[0] == "eq":
                ex.check(req(r, exp[1]), "%s:axis-value-is-not-%s" % (lab, {ZERO: "0", PI: "pi", HALF_PI: "pi/2", -HALF_PI: "-pi/2"}[exp[1]]))
            else:
                ex.check(conj([rlt(exp[1], r), rlt(r, exp[2])]), "%s:result-outside-the-quadrant's-interval" % lab)
            return
        if fn in ("asinh", "atanh") and region == "odd":
            # odd symmetry on the whole domain, asymptotic branches included: f(-x) = -f(x)
            if fn == "atanh":
                ex.assume(rlt(rabs(x), ONE))
            r1 = tr.call("a_real_" + fn, x, ret="f64")
            r2 = tr.call("a_real_" + fn, sub(ZERO, x), ret="f64")
            ex.check(req(r2, sub(ZERO, r1)), fn + ":not-an-odd-function")
            return
        if fn == "asinh" and region == "huge":
            # asymptotic branch: |asinh x| = log|x| + ln 2 (the literal A_REAL_LN2)
            SQ = Fraction(1.4901161193847656e-8)
            a = rabs(x)
            ex.assume(rlt(1 / SQ, a))
            r = tr.call("a_real_asinh", x, ret="f64")
            arg, lg = u["log"].calls[-1]
            ex.check(req(arg, a), "asinh:asymptotic-branch-does-not-take-log|x|")
            ex.check(req(rabs(r), add(lg, Fraction(math.log(2)))), "asinh:asymptotic-branch-is-not-log|x|+ln2")
            return
        if fn == "acosh" and region == "huge":
            SQ = Fraction(1.4901161193847656e-8)
            ex.assume(rlt(1 / SQ, x))
            r = tr.call("a_real_acosh", x, ret="f64")
            arg, lg = u["log"].calls[-1]
            ex.check(conj([req(arg, x), req(r, add(lg, Fraction(math.log(2))))]), "acosh:asymptotic-branch-is-not-log(x)+ln2")
            return
        if fn == "asinh":
            lo, hi = region
            a = rabs(x)
            ex.assume(conj([rlt(lo, a), rle(a, hi)]))
            r = tr.call("a_real_asinh", x, ret="f64")
            arg = [a_ for a_, _ in u["log"].calls][-1]
            s = ex.fresh_real("s")
            ex.assume(conj([rle(ZERO, s), req(mul(s, s), add(mul(x, x), ONE))]))
            ex.check(req(arg, add(a, s)), "asinh:argument-of-the-logarithm-is-not-|x|+sqrt(x^2+1)")
            lg = u["log"].calls[-1][1]
            ex.check(req(r, z3.If(R(x) < 0, -lg, lg)), "asinh:result-is-not-sign(x)*log(...)")
        elif fn == "acosh":
            if region == "nan":
                ex.assume(rlt(x, ONE))
                r = tr.call("a_real_acosh", x, ret="f64")
                ex.check(isinstance(r, core.NF) and r.kind == "nan", "acosh:below-the-domain-is-not-NaN")
                return
            if region == "one":
                r = tr.call("a_real_acosh", ONE, ret="f64")
                ex.check(req(r, ZERO), "acosh(1):not-0")
                return
            lo, hi = region
            ex.assume(conj([rlt(lo, x), rle(x, hi)]))
            r = tr.call("a_real_acosh", x, ret="f64")
            arg, lg = u["log"].calls[-1]
            s = ex.fresh_real("s")
            ex.assume(conj([rle(ZERO, s), req(mul(s, s), sub(mul(x, x), ONE))]))
            ex.check(req(arg, add(x, s)), "acosh:argument-of-the-logarithm-is-not-x+sqrt(x^2-1)")
            ex.check(req(r, lg), "acosh:result-is-not-log(...)")
        elif fn == "atanh":
            if region == "nan":
                ex.assume(rlt(ONE, rabs(x)))
                r = tr.call("a_real_atanh", x, ret="f64")
                ex.check(isinstance(r, core.NF) and r.kind == "nan", "atanh:outside-the-domain-is-not-NaN")
                return
            if region == "pole":
                for v, sg in ((ONE, 1), (-ONE, -1)):
                    r = tr.call("a_real_atanh", v, ret="f64")
                    ex.check(isinstance(r, core.NF) and r.kind == "inf" and r.sign == sg, "atanh(+-1):not-the-signed-infinity")
                return
            lo, hi = region
            a = rabs(x)
            ex.assume(conj([rlt(lo, a) if lo > 0 else rle(lo, a), rlt(a, hi)]))
            r = tr.call("a_real_atanh", x, ret="f64")
            arg, lg = u["log"].calls[-1]
            ex.check(req(arg, div(add(ONE, a), sub(ONE, a))), "atanh:argument-of-the-logarithm-is-not-(1+|x|)/(1-|x|)")
            ex.check(req(r, mul(z3.If(R(x) < 0, R(Fraction(-1, 2)), R(Fraction(1, 2))), lg)), "atanh:result-is-not-sign(x)/2*log(...)")
        elif fn == "log1p":
            ex.assume(rlt(-ONE, x))
            r = tr.call("a_real_log1p", x, ret="f64")
            arg, lg = u["log"].calls[-1]
            ex.check(conj([req(arg, add(ONE, x)), req(r, lg)]), "log1p:not-log(1+x)")
        elif fn == "expm1":
            ex.assume(rlt(Fraction(1, 2), rabs(x)))
            r = tr.call("a_real_expm1", x, ret="f64")
            arg, e = u["exp"].calls[-1]
            ex.check(conj([req(arg, x), req(r, sub(e, ONE))]), "expm1:not-exp(x)-1-outside-the-kernel-interval")
    return h


def div(a, b):
    if isinstance(a, (Fraction, int)) and isinstance(b, (Fraction, int)):
        return Fraction(a) / Fraction(b)
    return R(a) / R(b)


def norm_harness(kind, n, stride):
    def h(ex):
        tr = Tr(ex, "")
        set_mode(ex)
        libm(ex)
        ex.path_tags = [kind, "n=%d stride=%d" % (n, stride)]
        if kind in ("norm2", "norm3"):
            xs = [ex.fresh_real("x%d" % i) for i in range(n)]
            r = tr.call("a_real_" + kind, *xs, ret="f64")
        else:
            arr = Arr(ex, tr, max(1, n * stride) if stride > 1 else n, "p")
            xs = [arr.v[i * stride] for i in range(n)]
            r = tr.call("a_real_norm", n, arr.addr, ret="f64") if kind == "norm" else tr.call("a_real_norm_", n, arr.addr, stride, ret="f64")
        ex.check(rle(ZERO, r), kind + ":negative")
        ex.check(req(mul(r, r), ssum([mul(v, v) for v in xs])), kind + ":square-is-not-the-sum-of-squares")
        ex.check(z3.Implies(conj([req(v, ZERO) for v in xs]) if xs else True, R(r) == 0) if ex.concrete is None else True, kind + ":zero-vector-is-not-zero")
    return h


def coord_harness(kind):
    def h(ex):
        tr = Tr(ex, "")
        set_mode(ex)
        u = libm(ex)
        ex.path_tags = [kind]
        out = Arr(ex, tr, 3, "out")
        if kind == "cart2pol":
            x, y = ex.fresh_real("x"), ex.fresh_real("y")
            tr.call("a_real_cart2pol", x, y, out.addr, out.addr + 8, ret="void")
            rho, th = out.get()[:2]
            ex.check(conj([rle(ZERO, rho), req(mul(rho, rho), add(mul(x, x), mul(y, y)))]), "cart2pol:rho-is-not-the-euclidean-norm")
            ex.check(req(th, tr.call("a_real_atan2", y, x, ret="f64")), "cart2pol:theta-is-not-atan2(y,x)")
        elif kind == "pol2cart":
            rho, th = ex.fresh_real("rho"), ex.fresh_real("theta")
            tr.call("a_real_pol2cart", rho, th, out.addr, out.addr + 8, ret="void")
            x, y = out.get()[:2]
            c, s = u["cos"](ex, th), u["sin"](ex, th)
            ex.check(conj([req(x, mul(rho, c)), req(y, mul(rho, s))]), "pol2cart:not-rho*(cos,sin)")
        elif kind == "cart2sph":
            x, y, z = [ex.fresh_real(n) for n in "xyz"]
            tr.call("a_real_cart2sph", x, y, z, out.addr, out.addr + 8, out.addr + 16, ret="void")
            rho, th, al = out.get()
            ex.check(conj([rle(ZERO, rho), req(mul(rho, rho), ssum([mul(x, x), mul(y, y), mul(z, z)]))]), "cart2sph:rho-is-not-the-euclidean-norm")
            ex.check(req(th, tr.call("a_real_atan2", y, x, ret="f64")), "cart2sph:theta-is-not-atan2(y,x)")
        else:
            rho, th, al = ex.fresh_real("rho"), ex.fresh_real("theta"), ex.fresh_real("alpha")
            tr.call("a_real_sph2cart", rho, th, al, out.addr, out.addr + 8, out.addr + 16, ret="void")
            x, y, z = out.get()
            ca, sa, ct, st = u["cos"](ex, al), u["sin"](ex, al), u["cos"](ex, th), u["sin"](ex, th)
            ex.check(conj([req(x, mul(mul(rho, ca), ct)), req(y, mul(mul(rho, ca), st)), req(z, mul(rho, sa))]), "sph2cart:not-the-spherical-formulas")
    return h


def reduce_harness(kind, n, c1, c2):
    def h(ex):
        tr = Tr(ex, "")
        set_mode(ex)
        ex.path_tags = [kind, "n=%d strides=%d,%d" % (n, c1, c2)]
        X = Arr(ex, tr, max(n * c1, 1), "x")
        xs = [X.v[i * c1] for i in range(n)]
        strided = c1 > 1 or c2 > 1
        if kind in ("sum", "sum1", "sum2", "mean"):
            r = tr.call("a_real_%s_" % kind, n, X.addr, c1, ret="f64") if strided else tr.call("a_real_" + kind, n, X.addr, ret="f64")
            exp = {"sum": lambda: ssum(xs), "sum1": lambda: ssum([rabs(v) for v in xs]), "sum2": lambda: ssum([mul(v, v) for v in xs]),
                   "mean": lambda: mul(ssum(xs), Fraction(1, n))}[kind]()
            ex.check(req(r, exp), kind + ":not-the-defining-formula")
            if kind == "mean":
                # the mean of finite doubles is representable: no arithmetic result of the executed IR may leave the double range
                # (exact-real stand-in for IEEE overflow; a sum-then-scale body equals the formula in the reals but returns inf)
                lim = Fraction(2) ** 1023
                ex.assume(conj([conj([rle(v, lim), rle(-lim, v)]) for v in xs]))
                ex.range_watch = (Fraction(2) ** 1024, Fraction(1, 2 ** 1075))
                tr.call("a_real_mean_", n, X.addr, c1, ret="f64") if strided else tr.call("a_real_mean", n, X.addr, ret="f64")
                ex.range_watch = None
        elif kind == "dot":
            Y = Arr(ex, tr, max(n * c2, 1), "y")
            ys = [Y.v[i * c2] for i in range(n)]
            r = tr.call("a_real_dot_", n, X.addr, c1, Y.addr, c2, ret="f64") if strided else tr.call("a_real_dot", n, X.addr, Y.addr, ret="f64")
            ex.check(req(r, ssum([mul(a, b) for a, b in zip(xs, ys)])), "dot:not-the-defining-formula")
        check_all = lambda got, exp, lab: [ex.check(req(g, e), lab, "element %d" % i) for i, (g, e) in enumerate(zip(got, exp))]
        if kind in ("sum", "sum1", "sum2", "mean", "dot"):
            check_all(X.get(), X.v, kind + ":input-modified")
    return h


def move_harness(kind, n, m):
    def h(ex):
        tr = Tr(ex, "")
        set_mode(ex)
        ex.path_tags = [kind, "n=%d m=%d" % (n, m)]
        P = Arr(ex, tr, n, "p")
        old = list(P.v)
        eq = lambda got, exp, lab: [ex.check(req(g, e), lab, "element %d" % i) for i, (g, e) in enumerate(zip(got, exp))]
        if kind == "copy":
            D = Arr(ex, tr, n, "d")
            tr.call("a_real_copy", n, D.addr, P.addr, ret="void")
            eq(D.get(), old, "copy:destination"); eq(P.get(), old, "copy:source-modified")
        elif kind == "copy_":
            D = Arr(ex, tr, n * 2, "d")
            dold = list(D.v)
            tr.call("a_real_copy_", n, D.addr, 2, P.addr, 1, ret="void")
            eq(D.get(), [old[i // 2] if i % 2 == 0 else dold[i] for i in range(2 * n)], "copy_:strided-destination")
        elif kind == "swap":
            Q = Arr(ex, tr, n, "q")
            qold = list(Q.v)
            tr.call("a_real_swap", n, P.addr, Q.addr, ret="void")
            eq(P.get(), qold, "swap:lhs"); eq(Q.get(), old, "swap:rhs")
        elif kind == "fill":
            v = ex.fresh_real("v")
            tr.call("a_real_fill", n, P.addr, v, ret="void")
            eq(P.get(), [v] * n, "fill")
        elif kind == "zero":
            tr.call("a_real_zero", n, P.addr, ret="void")
            eq(P.get(), [ZERO] * n, "zero")
        elif kind in ("push_fore", "push_back"):
            v = ex.fresh_real("v")
            tr.call("a_real_" + kind, P.addr, n, v, ret="void")
            exp = ([v] + old[:-1] if kind == "push_fore" else old[1:] + [v]) if n else []
            eq(P.get(), exp, kind)
        elif kind in ("push_fore_", "push_back_"):
            C = Arr(ex, tr, m, "c")
            tr.call("a_real_" + kind, P.addr, n, C.addr, m, ret="void")
            k = min(n, m)
            tail = C.v[m - k:]
            exp = (tail + old[:n - k]) if kind == "push_fore_" else (old[k:] + tail)
            eq(P.get(), exp if k else old, kind)
            eq(C.get(), C.v, kind + ":cache-modified")
        elif kind in ("roll_fore", "roll_back"):
            tr.call("a_real_" + kind, P.addr, n, ret="void")
            exp = (old[1:] + old[:1] if kind == "roll_fore" else old[-1:] + old[:-1]) if n else []
            eq(P.get(), exp, kind)
        elif kind in ("roll_fore_", "roll_back_"):
            if n == 0:
                raise core.Infeasible()          # shift_n %= block_n: a block of length 0 is outside the domain
            S = Arr(ex, tr, max(1, m % n), "s")
            tr.call("a_real_" + kind, P.addr, n, S.addr, m, ret="void")
            k = m % n
            exp = old[k:] + old[:k] if kind == "roll_fore_" else old[n - k:] + old[:n - k]
            eq(P.get(), exp, kind)
    return h


def builder(p):
    k = p[0]
    if k == "special":
        return "special/%s/%s" % (p[1], str(p[2]).replace(" ", "")), special_harness(p[1], p[2])
    if k == "norm":
        return "norm/%s/n%d-stride%d" % (p[1], p[2], p[3]), norm_harness(p[1], p[2], p[3])
    if k == "coord":
        return "coord/" + p[1], coord_harness(p[1])
    if k == "reduce":
        return "reduce/%s/n%d-strides%d,%d" % (p[1], p[2], p[3], p[4]), reduce_harness(*p[1:])
    return "move/%s/n%d-m%d" % (p[1], p[2], p[3]), move_harness(*p[1:])


def main():
    res = Result(PID)
    T = tier()
    N = 4 if T == "quick" else 6
    SQ = Fraction(1.4901161193847656e-8)
    fb = [("special", "atan2", (sx, sy)) for sx in "+-0" for sy in "+-0"]
    fb += [("special", "asinh", "odd"), ("special", "atanh", "odd"), ("special", "asinh", "huge"), ("special", "acosh", "huge"),
           ("special", "asinh", (Fraction(2), 1 / SQ)), ("special", "asinh", (SQ, Fraction(2))),
           ("special", "acosh", (Fraction(2), 1 / SQ)), ("special", "acosh", (ONE, Fraction(2))), ("special", "acosh", "nan"), ("special", "acosh", "one"),
           ("special", "atanh", (Fraction(1, 2), ONE)), ("special", "atanh", (Fraction(2) ** -52, Fraction(1, 2))), ("special", "atanh", "nan"), ("special", "atanh", "pole"),
           ("special", "log1p", "domain"), ("special", "expm1", "outside-kernel")]
    fb += [("norm", "norm2", 2, 1), ("norm", "norm3", 3, 1)] + [("norm", "norm", n, 1) for n in range(0, N + 1)] + [("norm", "norm_", n, 2) for n in range(0, 4)]
    fb += [("coord", k) for k in ("cart2pol", "pol2cart", "cart2sph", "sph2cart")]
    both = []
    for kind in ("sum", "sum1", "sum2", "mean", "dot"):
        for n in range(0 if kind != "mean" else 1, N + 1):
            both.append(("reduce", kind, n, 1, 1))
            if n <= 3:
                both.append(("reduce", kind, n, 2, 1 if kind != "dot" else 3))
    for kind in ("copy", "copy_", "swap", "fill", "zero", "push_fore", "push_back", "roll_fore", "roll_back"):
        for n in range(0, N + 1):
            both.append(("move", kind, n, 0))
    for kind in ("push_fore_", "push_back_", "roll_fore_", "roll_back_"):
        for n in range(0, 4):
            for m in range(0, 4):
                both.append(("move", kind, n, m))
    srcs = ["math.c", "a.c"]
    for have, inst, grp in (("none", fb + both, "fallback"), ("all", both, "libm-bound")):
        cfg = gen_config(have=have)
        e2.run_e2(res, cfg, srcs, inst, builder, group=grp, validate_every=9, tol=1e-6, exec_attrs={"force_solver": True},
                  exec_opts={"solver": "nra", "timeout_ms": 120000}, time_budget=300 if T == "quick" else 2000)
    res.functions.update(["a_real_atan2", "a_real_asinh", "a_real_acosh", "a_real_atanh", "a_real_log1p", "a_real_expm1 (outside the kernel interval)", "a_real_norm2", "a_real_norm3",
                          "a_real_norm", "a_real_norm_", "a_real_cart2pol", "a_real_pol2cart", "a_real_cart2sph", "a_real_sph2cart", "a_real_sum/sum1/sum2/mean/dot (+ strided)",
                          "a_real_copy/copy_/swap/fill/zero/push_fore/push_back/push_fore_/push_back_/roll_fore/roll_back/roll_fore_/roll_back_"])
    res.bounds = {"configurations": "every A_HAVE_* switch off (fallback bodies) for the special functions; both settings for the reductions and data-movement helpers",
                  "special functions": "all real arguments of each exact branch; atan2 over all nine sign combinations of (x, y)",
                  "arrays": "lengths 0..%d, strides 1-3, block/cache sizes 0..3" % N}
    res.outside = ["accuracy to a few ulp of any transcendental evaluation (no installed solver decides it)", "accuracy of the asymptotic branches (their structure log|x| + ln 2 and odd symmetry ARE decided) and the rational expm1 kernel",
                   "norms do not overflow/underflow (an IEEE range statement)", "float instantiation", "the libm-bound configuration of the special functions (the macro binds the C library function directly)"]
    res.assumptions = ["atan is odd, increasing, into (-pi/2, pi/2) with the sign of its argument; log is increasing with log(1) = 0; exp is positive and increasing; sin/cos have range [-1,1] and the usual parity",
                       "pi is the value of the A_REAL_PI literal"]
    res.stubs = ["atan, log, exp, sin, cos: fresh reals per call with contract + pairwise consistency/monotonicity/parity facts", "sqrt: y >= 0 with y*y = x"]
    e2.finish_coverage(res, must_cover=["a_real_atan2", "a_real_asinh", "a_real_acosh", "a_real_atanh", "a_real_norm", "a_real_norm_", "a_real_roll_back_", "a_real_push_fore_"], report_funcs=None)
    return res.finish()


if __name__ == "__main__":
    sys.exit(main())
