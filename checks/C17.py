"""C17: CRC and hashes — E1 (CBMC, assume-guarantee decomposition), DESIGN.md section 4/C17."""
import os, sys
from vcommon import *
from e1 import H, run_e1, replay_file
import e2
sys.path.insert(0, os.path.join(VERIF, "harness", "llsym"))
import core, z3
from replay import Tr

CRCS = {"crc8": ("a_crc8", 8), "crc16m": ("a_crc16m", 16), "crc16l": ("a_crc16l", 16), "crc32m": ("a_crc32m", 32), "crc32l": ("a_crc32l", 32),
        "crc64m": ("a_crc64m", 64), "crc64l": ("a_crc64l", 64)}


def split_harness(name, N):
    """E2: with an ARBITRARY table (256 symbolic entries) and symbolic data / running value, feeding the message in two
    pieces at every split point gives the same value as feeding it at once (terms built by executing the real code)."""
    def h(ex):
        tr = Tr(ex, "")
        ex.path_tags = [name, "N=%d" % N]
        if name in CRCS:
            fn, w = CRCS[name]
            tab = tr.alloc(256 * w // 8, "table")
            for i in range(256):
                tr.store(tab + i * w // 8, ex.fresh_bv("t%d" % i, w), w // 8)
            ex.obj_at(tab).ro = True
            call = lambda p, n, v: tr.call(fn, tab, p, n, v, ret="i64")
        else:
            w = 32
            call = lambda p, n, v: tr.call("a_hash_%s_" % name, p, n, v, ret="i64")
        d = tr.alloc(N, "data")
        tr.store_bytes(d, [ex.fresh_bv("d%d" % i, 8) for i in range(N)])
        v = ex.fresh_bv("v", w)
        whole = call(d, N, v)
        for k in range(N + 1):
            part = call(d, k, v)
            rest = call(d + k, N - k, part)
            ex.check(core.bv(rest, w) == core.bv(whole, w) if (core.is_sym(rest) or core.is_sym(whole)) else rest == whole,
                     "%s:pieces-differ-from-the-whole" % name, "split at %d of %d" % (k, N))
    return h


def split_builder(p):
    return "%s/N%d" % p, split_harness(*p)

PID = "C17"
F = os.path.join(VERIF, "harness", "C17", "c17.c")
SRCS = ["crc.c", "hash.c", "a.c"]


def main():
    cfg = gen_config()
    if os.environ.get("VERIF_REPLAY"):
        return replay_file(cfg, os.environ["VERIF_REPLAY"])
    res = Result(PID)
    T = tier()
    NB, NE, NH = (3, 2, 4) if T == "quick" else (4, 2, 6)
    D = ("NB=%d" % NB, "NE=%d" % NE, "NH=%d" % NH)
    hs = []
    for w in (8, 16, 32, 64):
        hs.append(H("table/crc%dm" % w, F, "h_table_m%d" % w, SRCS, defs=D, unwind=257))
        hs.append(H("table/crc%dl" % w, F, "h_table_l%d" % w, SRCS, defs=D, unwind=257))
        hs.append(H("step/crc%dm" % w, F, "h_step_m%d" % w, SRCS, defs=D, unwind=257))
        if w > 8:
            hs.append(H("step/crc%dl" % w, F, "h_step_l%d" % w, SRCS, defs=D, unwind=257))
        hs.append(H("reflect/crc%d" % w, F, "h_reflect%d" % w, SRCS, defs=D, unwind=65))
        if w <= 16 or T == "thorough":
            hs.append(H("end-to-end/crc%d" % w, F, "h_e2e%d" % w, SRCS, defs=D, unwind=257))
    hs.append(H("step/crc8-lsb-table", F, "h_step_l8", SRCS, defs=D, unwind=257))
    for n in ("crc8", "crc16m", "crc16l", "crc32m", "crc32l", "crc64m", "crc64l"):
        hs.append(H("concat/" + n, F, "h_concat_" + n, SRCS, defs=D, unwind=257))
    for n in ("bkdr", "sdbm"):
        hs.append(H("hash/%s-concat" % n, F, "h_hash_%s_concat" % n, SRCS, defs=D, unwind=NH + 3))
        hs.append(H("hash/%s-step" % n, F, "h_hash_%s_step" % n, SRCS, defs=D, unwind=34))
        hs.append(H("hash/%s-string-form" % n, F, "h_hash_%s_str" % n, SRCS, defs=D, unwind=NH + 3))
    res.functions.update(["a_crc8m_init", "a_crc8l_init", "a_crc16m_init", "a_crc16l_init", "a_crc32m_init", "a_crc32l_init",
                          "a_crc64m_init", "a_crc64l_init", "a_crc8", "a_crc16m", "a_crc16l", "a_crc32m", "a_crc32l",
                          "a_crc64m", "a_crc64l", "a_u8_rev", "a_u16_rev", "a_u32_rev", "a_u64_rev",
                          "a_hash_bkdr", "a_hash_bkdr_", "a_hash_sdbm", "a_hash_sdbm_"])
    res.bounds = {"table lemma": "polynomial full width, all 256 indices", "step lemma": "polynomial, running value, data byte full width; arbitrary table constrained at the predicted index",
                  "concatenation": "all (k, n) with k <= n <= %d; table, data, value arbitrary" % NB,
                  "end-to-end": "standard polynomials 0x07, 0x8005 (thorough: also 0x04C11DB7, 0x42F0E1EBA9EA3693); messages <= %d bytes" % NE,
                  "hash": "messages <= %d bytes, every split; one-byte recurrence full width" % NH}
    res.outside = ["messages longer than the stated byte counts (the per-byte step lemma is the inductive step, but the claim stays bounded)"]
    res.assumptions = ["table CRC = bitwise remainder follows from (T) + (S1) + (C) by induction over bytes; the induction itself is a paper argument",
                       "CBMC bit-precise C semantics"]
    run_e1(res, cfg, hs, default_timeout=300 if T == "quick" else 1800)
    NS = 8 if T == "quick" else 16
    inst = [(n, k) for n in list(CRCS) + ["bkdr", "sdbm"] for k in sorted(set([1, 2, NS // 2, NS]))]
    e2.run_e2(res, cfg, ["crc.c", "hash.c", "a.c"], inst, split_builder, group="split", validate_every=4, exec_attrs={"force_solver": True},
              time_budget=300 if T == "quick" else 1500)
    res.bounds["every split point (llsym)"] = "messages of 1, 2, %d, %d bytes, every split k = 0..n, arbitrary 256-entry table (symbolic), symbolic data and running value" % (NS // 2, NS)
    e2.finish_coverage(res, must_cover=["a_crc32m", "a_crc64l", "a_hash_bkdr_"], report_funcs=None)
    return res.finish()


if __name__ == "__main__":
    sys.exit(main())
