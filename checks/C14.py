"""C14: velocity-profile trajectories — E2 (llsym, exact-real domain), DESIGN.md 4/C14.
Trapezoid: all planning branches.  Bell (double-S): the cruise branch (constant-velocity phase present);
the iterative acceleration-reduction loop is cut (outside the claim)."""
import os, sys
from fractions import Fraction
from vcommon import *
import e2
sys.path.insert(0, os.path.join(VERIF, "harness", "llsym"))
import core, z3, build
from replay import Tr
from realcheck import *

PID = "C14"
ZERO = Fraction(0)
TRAP_F = ["t", "p0", "p1", "v0", "v1", "vc", "ta", "td", "pa", "pd", "ac", "de"]
BELL_F = ["t", "tv", "ta", "td", "taj", "tdj", "p0", "p1", "v0", "v1", "vm", "jm", "am", "dm"]


def fields(ex, ctx, names):
    return {n: ex.load(ctx + 8 * i, F64) for i, n in enumerate(names)}


def subst(e, x, val):
    if isinstance(e, (Fraction, int)):
        return e
    return z3.substitute(e, (x, R(val)))


def trap_harness(clause, fwd, seg):
    def h(ex):
        tr = Tr(ex, "")
        set_mode(ex)
        ex.path_tags = ["trapezoid", clause, "forward" if fwd else "backward", "segment %s" % seg]
        ctx = tr.alloc(8 * len(TRAP_F), "ctx")
        vm, ac, de, p0, p1, v0, v1 = [ex.fresh_real(n) for n in ("vm", "ac", "de", "p0", "p1", "v0", "v1")]
        # feasible request (as the property states it): acceleration signs match the direction of travel
        ex.assume(neg(req(vm, ZERO)))
        if fwd:
            ex.assume(conj([rlt(p0, p1), rlt(ZERO, ac), rlt(de, ZERO)]))
        else:
            ex.assume(conj([rlt(p1, p0), rlt(ac, ZERO), rlt(ZERO, de)]))
        ex.assume(conj([rle(rabs(v0), rabs(vm)), rle(rabs(v1), rabs(vm))]))
        t = tr.call("a_trajtrap_gen", ctx, vm, ac, de, p0, p1, v0, v1, ret="f64")
        if not ex.branch(rlt(ZERO, t)):
            return                       # no plan: nothing is claimed
        f = fields(ex, ctx, TRAP_F)
        ta, td, T = f["ta"], f["td"], f["t"]
        call = lambda fn, x: tr.call("a_trajtrap_" + fn, ctx, x, ret="f64")
        if clause == "phases":
            ex.check(req(T, t), "trap:returned-duration-differs-from-recorded")
            ex.check(conj([rle(ZERO, ta), rle(ta, td), rle(td, T)]), "trap:phase-durations-negative-or-unordered")
            ex.check(req(f["v0"], v0), "trap:recorded-initial-velocity-is-not-the-(clamped)-requested-one")
            ex.check(req(call("pos", ZERO), p0), "trap:pos(0)-is-not-p0")
            ex.check(req(call("vel", ZERO), f["v0"]), "trap:vel(0)-is-not-v0")
            ex.check(req(call("pos", T), p1), "trap:pos(t)-is-not-p1")
            ex.check(req(call("vel", T), f["v1"]), "trap:vel(t)-is-not-the-recorded-final-velocity")
            xb = ex.fresh_real("before")
            ex.assume(rlt(xb, ZERO))
            ex.check(req(call("pos", xb), p0), "trap:query-before-start-does-not-hold-p0")
            ex.check(req(call("vel", xb), f["v0"]), "trap:query-before-start-does-not-hold-v0")
            xa = ex.fresh_real("after")
            ex.assume(rlt(T, xa))
            ex.check(req(call("pos", xa), p1), "trap:query-after-end-does-not-hold-p1")
            ex.check(req(call("vel", xa), f["v1"]), "trap:query-after-end-does-not-hold-v1")
            return
        # per-segment clauses with a symbolic query time strictly inside the segment
        B = [ZERO, ta, td, T]
        k = seg
        x = ex.fresh_real("x")
        ex.assume(conj([rlt(B[k], x), rlt(x, B[k + 1])]))
        pos, vel, acc = call("pos", x), call("vel", x), call("acc", x)
        ex.check(rle(rabs(vel), rabs(vm)), "trap:speed-exceeds-the-velocity-limit", "segment %d" % k)
        P = Piece(ex, lambda t_: call("pos", t_), x, pos, B[k], B[k + 1])
        V = Piece(ex, lambda t_: call("vel", t_), x, vel, B[k], B[k + 1])
        # acc is the derivative of vel, vel the derivative of pos (pieces are polynomials in x)
        ex.check(req(acc, V.deriv_at_x()), "trap:acc-is-not-the-derivative-of-vel", "segment %d" % k)
        ex.check(req(vel, P.deriv_at_x()), "trap:vel-is-not-the-derivative-of-pos", "segment %d" % k)
        # continuity: the limit of this piece at both ends equals the value reported at the boundary
        for b, side in ((B[k], "left"), (B[k + 1], "right")):
            ex.check(req(P.at(b), call("pos", b)), "trap:position-discontinuous-at-phase-boundary", "segment %d %s end" % (k, side))
            ex.check(req(V.at(b), call("vel", b)), "trap:velocity-discontinuous-at-phase-boundary", "segment %d %s end" % (k, side))
    return h


def deriv(e, x):
    """d/dx of a polynomial expression in x of degree <= 3 with coefficients free of x, by finite differences
    (exact for polynomials): f'(x) = (-f(x+2) + 8 f(x+1) - 8 f(x-1) + f(x-2)) / 12 is exact up to degree 4."""
    if isinstance(e, (Fraction, int)):
        return Fraction(0)
    f = lambda d: z3.substitute(e, (x, x + d))
    return (-f(2) + 8 * f(1) - 8 * f(-1) + f(-2)) / 12


PASSES = [0]


def bell_feasible(ex, jm, am, vm, p0, p1, v0, v1, fwd):
    """The standard double-S feasibility condition (Biagiotti & Melchiorri, 3.4): the displacement is large enough to
    change the velocity from v0 to v1 under the jerk / acceleration limits."""
    sg = 1 if fwd else -1
    h = mul(sg, sub(p1, p0))
    a, b = mul(sg, v0), mul(sg, v1)
    dv = rabs(sub(b, a))
    s = ex.fresh_real("tjstar")
    ex.assume(conj([rle(ZERO, s), req(mul(mul(s, s), jm), dv)]))
    lim = R(am) / R(jm)
    ex.assume(z3.If(R(s) < lim, R(h) > R(s) * (R(a) + R(b)), R(h) > (R(a) + R(b)) * (lim + R(dv) / R(am)) / 2) if ex.concrete is None else True)


def bell_harness(clause, fwd, seg):
    def h(ex):
        tr = Tr(ex, "")
        set_mode(ex)
        ex.path_tags = ["bell", clause, "forward" if fwd else "backward", "segment %s" % seg]
        ctx = tr.alloc(8 * len(BELL_F), "ctx")
        jm, am, vm, p0, p1, v0, v1 = [ex.fresh_real(n) for n in ("jm", "am", "vm", "p0", "p1", "v0", "v1")]
        ex.assume(conj([rlt(ZERO, jm), rlt(ZERO, am), rlt(ZERO, vm), rlt(p0, p1) if fwd else rlt(p1, p0)]))
        ex.assume(conj([rle(rabs(v0), vm), rle(rabs(v1), vm)]))
        if PASSES[0]:
            bell_feasible(ex, jm, am, vm, p0, p1, v0, v1, fwd)
        t = tr.call("a_trajbell_gen", ctx, jm, am, vm, p0, p1, v0, v1, ret="f64")
        if not ex.branch(rlt(ZERO, t)):
            return
        f = fields(ex, ctx, BELL_F)
        T, tv, ta, td, taj, tdj = f["t"], f["tv"], f["ta"], f["td"], f["taj"], f["tdj"]
        call = lambda fn, x: tr.call("a_trajbell_" + fn, ctx, x, ret="f64")
        if clause == "phases":
            ex.check(conj([rle(ZERO, ta), rle(ZERO, td), rle(ZERO, tv), rle(ZERO, taj), rle(ZERO, tdj)]), "bell:phase-durations-negative")
            ex.check(req(T, add(add(ta, tv), td)), "bell:phases-do-not-add-up-to-the-total")
            ex.check(conj([rle(mul(2, taj), ta), rle(mul(2, tdj), td)]), "bell:jerk-phases-longer-than-the-acceleration-phase")
            ex.check(req(call("pos", ZERO), p0), "bell:pos(0)-is-not-p0")
            ex.check(req(call("vel", ZERO), v0), "bell:vel(0)-is-not-v0")
            ex.check(req(call("acc", ZERO), ZERO), "bell:acc(0)-is-not-0")
            ex.check(req(call("pos", T), p1), "bell:pos(t)-is-not-p1")
            ex.check(req(call("vel", T), v1), "bell:vel(t)-is-not-v1")
            ex.check(req(call("acc", T), ZERO), "bell:acc(t)-is-not-0")
            return
        B = [ZERO, taj, sub(ta, taj), ta, add(ta, tv), add(sub(T, td), tdj), sub(T, tdj), T]
        k = seg
        x = ex.fresh_real("x")
        ex.assume(conj([rlt(B[k], x), rlt(x, B[k + 1])]))
        pos, vel, acc, jer = call("pos", x), call("vel", x), call("acc", x), call("jer", x)
        ex.check(rle(rabs(vel), vm), "bell:speed-exceeds-the-velocity-limit", "segment %d" % k)
        ex.check(rle(rabs(acc), am), "bell:acceleration-exceeds-its-limit", "segment %d" % k)
        ex.check(rle(rabs(jer), jm), "bell:jerk-exceeds-its-limit", "segment %d" % k)
        P = Piece(ex, lambda t_: call("pos", t_), x, pos, B[k], B[k + 1])
        V = Piece(ex, lambda t_: call("vel", t_), x, vel, B[k], B[k + 1])
        A = Piece(ex, lambda t_: call("acc", t_), x, acc, B[k], B[k + 1])
        ex.check(req(vel, P.deriv_at_x()), "bell:vel-is-not-the-derivative-of-pos", "segment %d" % k)
        ex.check(req(acc, V.deriv_at_x()), "bell:acc-is-not-the-derivative-of-vel", "segment %d" % k)
        ex.check(req(jer, A.deriv_at_x()), "bell:jer-is-not-the-derivative-of-acc", "segment %d" % k)
        for b, side in ((B[k], "left"), (B[k + 1], "right")):
            ex.check(req(P.at(b), call("pos", b)), "bell:position-discontinuous-at-phase-boundary", "segment %d %s end" % (k, side))
            ex.check(req(V.at(b), call("vel", b)), "bell:velocity-discontinuous-at-phase-boundary", "segment %d %s end" % (k, side))
            ex.check(req(A.at(b), call("acc", b)), "bell:acceleration-discontinuous-at-phase-boundary", "segment %d %s end" % (k, side))
    return h


def builder(p):
    kind, clause, fwd, seg = p
    name = "%s/%s/%s%s" % ("trapezoid" if kind == "trap" else "bell", clause, "forward" if fwd else "backward", "" if seg is None else "/segment%d" % seg)
    return name, (trap_harness if kind == "trap" else bell_harness)(clause, fwd, seg)


def loop_headers(mods, fname):
    for m in mods:
        f = m.funcs.get(fname)
        if f is None:
            continue
        pos = {lab: i for i, lab in enumerate(f.order)}
        hdr = set()
        for lab in f.order:
            for ins in f.blocks[lab]:
                tg = []
                if ins[0] == "br":
                    tg = [ins[2]]
                elif ins[0] == "cbr":
                    tg = [ins[3], ins[4]]
                for t_ in tg:
                    if pos[t_] <= pos[lab]:
                        hdr.add(t_)
        return hdr
    return set()


def main():
    cfg = gen_config()
    res = Result(PID)
    T = tier()
    srcs = ["trajtrap.c", "trajbell.c", "math.c", "a.c"]
    mods = build.load_modules(cfg, srcs)
    # the body of the acceleration-reduction loop is executed ONCE (its first pass already contains the exits to the
    # no-cruise and the acceleration-only / deceleration-only plans); a path is abandoned when it comes back to the header
    PASSES[0] = 0 if T == "quick" else 1
    cut = {("a_trajbell_gen", h): PASSES[0] for h in loop_headers(mods, "a_trajbell_gen")}
    res.functions.update(["a_trajtrap_gen", "a_trajtrap_pos", "a_trajtrap_vel", "a_trajtrap_acc",
                          "a_trajbell_gen (cruise branch: constant-velocity phase present)", "a_trajbell_pos", "a_trajbell_vel", "a_trajbell_acc", "a_trajbell_jer"])
    res.bounds = {"trapezoid": "all real limits/positions/velocities with vm != 0, p1 != p0, acceleration signs matching the direction of travel, |v0|,|v1| <= |vm|; every planning branch (forked); a symbolic query time inside each phase",
                  "bell": "jm, am, vm > 0, |v0|,|v1| <= vm; quick: plans with a constant-velocity phase; thorough: additionally the plans produced by the FIRST pass of the acceleration-reduction loop (no cruise phase with the acceleration limit reached; acceleration-only; deceleration-only) under the standard double-S feasibility condition; symbolic query time inside each of the seven segments",
                  "cut": "the loop of a_trajbell_gen is executed once; paths returning to its header are abandoned: blocks %s" % sorted(h for _, h in cut)}
    res.outside = ["second and later passes of the acceleration-reduction loop of a_trajbell_gen (about 52 halvings with three exits each: path explosion, loop-carried real state)",
                   "rounding: continuity / end-state clauses are decided as exact equalities of the real formulas"]
    res.assumptions = ["sqrt(x) = the y >= 0 with y*y = x", "obligations on which z3 answers 'unknown' within the time limit are listed under dropped_from_claim (bell profile only), never counted as held"]
    inst_t = [("trap", "phases", d, None) for d in (True, False)] + [("trap", "segments", d, k) for d in (True, False) for k in range(3)]
    inst_b = [("bell", "phases", d, None) for d in (True, False)] + [("bell", "segments", d, k) for d in (True, False) for k in range(7)]
    e2.run_e2(res, cfg, srcs, inst_t, builder, group="trap", validate_every=1, tol=1e-6, exec_attrs={"force_solver": True},
              exec_opts={"solver": "nra", "timeout_ms": 60000 if T == "quick" else 600000}, time_budget=500 if T == "quick" else 4000)
    e2.run_e2(res, cfg, srcs, inst_b, builder, group="bell", validate_every=1, tol=1e-6, exec_attrs={"force_solver": True, "cut": cut},
              exec_opts={"solver": "nra", "timeout_ms": 60000 if T == "quick" else 300000}, time_budget=500 if T == "quick" else 2000, droppable=True)
    e2.finish_coverage(res, must_cover=["a_trajtrap_gen", "a_trajtrap_pos", "a_trajbell_gen", "a_trajbell_pos", "a_trajbell_jer"], report_funcs=None)
    return res.finish()


if __name__ == "__main__":
    sys.exit(main())
