"""C13: membership functions, fuzzy operators, gain scheduling — E2 (llsym, exact-real domain) + E1 (CBMC)
for the exact min/max operators, DESIGN.md 4/C13."""
import os, sys, itertools
from fractions import Fraction
from vcommon import *
import e2
from e1 import H, run_e1, replay_file
sys.path.insert(0, os.path.join(VERIF, "harness", "llsym"))
import core, z3
from replay import Tr
from realcheck import *
import fuzzyctl
from fuzzyctl import FuzzyCtl, PID_F, get_pid, OFF

PID = "C13"
F = os.path.join(VERIF, "harness", "C13", "c13.c")
ZERO, ONE, HALF = Fraction(0), Fraction(1), Fraction(1, 2)
MF_E = dict(gauss=1, gauss2=2, gbell=3, sig=4, dsig=5, psig=6, trap=7, tri=8, lins=9, linz=10, s=11, z=12, pi=13)
NPAR = dict(gauss=2, gauss2=4, gbell=3, sig=2, dsig=4, psig=4, trap=4, tri=3, lins=2, linz=2, s=2, z=2, pi=4)


def unit(y):
    return conj([rle(ZERO, y), rle(y, ONE)])


def params(ex, fam, strict):
    n = NPAR[fam]
    p = [ex.fresh_real("p%d" % i) for i in range(n)]
    if fam in ("trap", "tri", "lins", "linz", "s", "z", "pi"):
        for a, b in zip(p, p[1:]):
            ex.assume(rlt(a, b) if strict else rle(a, b))
        if fam in ("s", "z"):
            ex.assume(rlt(p[0], p[1]))                       # smooth families: non-zero width
        if fam == "pi":
            ex.assume(conj([rlt(p[0], p[1]), rlt(p[2], p[3])]))
    elif fam == "gauss":
        ex.assume(neg(req(p[0], ZERO)))                      # sigma != 0
    elif fam == "gauss2":
        ex.assume(conj([neg(req(p[0], ZERO)), neg(req(p[2], ZERO)), rle(p[1], p[3])]))
    elif fam == "gbell":
        ex.assume(conj([neg(req(p[0], ZERO)), rle(ZERO, p[1])]))
    elif fam == "dsig":
        ex.assume(conj([req(p[0], p[2]), rlt(ZERO, p[0]), rle(p[1], p[3])]))   # equal positive slopes, ordered centres
    return p


def mf_harness(fam, clause):
    def h(ex):
        tr = Tr(ex, "")
        set_mode(ex)
        fuzzyctl.install_math(ex)
        ex.path_tags = ["mf", fam, clause]
        call = lambda x, p: tr.call("a_mf_" + fam, x, *p, ret="f64")
        if clause == "range":
            p = params(ex, fam, strict=False)
            x = ex.fresh_real("x")
            y = call(x, p)
            ex.check(unit(y), "mf_%s:value-outside-[0,1]" % fam)
            # generic dispatcher returns the same value
            arr = Arr(ex, tr, len(p), "par", init=p)
            ex.check(req(tr.call("a_mf", MF_E[fam], x, arr.addr, ret="f64"), y), "mf:dispatcher-differs-from-a_mf_%s" % fam)
        elif clause == "shape":
            p = params(ex, fam, strict=True)
            x, y2 = ex.fresh_real("x"), ex.fresh_real("y")
            ex.assume(rle(x, y2))
            fx, fy = call(x, p), call(y2, p)
            if fam in ("trap", "pi"):
                a, b, c, d = p
                ex.check(z3.Implies(z3.And(R(x) >= R(b), R(x) <= R(c)), R(fx) == 1), "mf_%s:core-is-not-one" % fam)
                ex.check(z3.Implies(z3.Or(R(x) <= R(a), R(x) >= R(d)), R(fx) == 0), "mf_%s:outside-the-support-is-not-zero" % fam)
                ex.check(z3.Implies(R(y2) <= R(b), R(fx) <= R(fy)), "mf_%s:rising-flank-not-monotone" % fam)
                ex.check(z3.Implies(R(x) >= R(c), R(fx) >= R(fy)), "mf_%s:falling-flank-not-monotone" % fam)
            elif fam == "tri":
                a, b, c = p
                ex.check(z3.Implies(R(x) == R(b), R(fx) == 1), "mf_tri:peak-is-not-one")
                ex.check(z3.Implies(z3.Or(R(x) <= R(a), R(x) >= R(c)), R(fx) == 0), "mf_tri:outside-the-support-is-not-zero")
                ex.check(z3.Implies(R(y2) <= R(b), R(fx) <= R(fy)), "mf_tri:rising-flank-not-monotone")
                ex.check(z3.Implies(R(x) >= R(b), R(fx) >= R(fy)), "mf_tri:falling-flank-not-monotone")
            elif fam in ("lins", "s"):
                a, b = p
                ex.check(rle(fx, fy), "mf_%s:not-monotone-rising" % fam)
                ex.check(z3.Implies(R(x) <= R(a), R(fx) == 0), "mf_%s:left-of-the-ramp-is-not-zero" % fam)
                ex.check(z3.Implies(R(x) >= R(b), R(fx) == 1), "mf_%s:right-of-the-ramp-is-not-one" % fam)
            elif fam in ("linz", "z"):
                a, b = p
                ex.check(rle(fy, fx), "mf_%s:not-monotone-falling" % fam)
                ex.check(z3.Implies(R(x) <= R(a), R(fx) == 1), "mf_%s:left-of-the-ramp-is-not-one" % fam)
                ex.check(z3.Implies(R(x) >= R(b), R(fx) == 0), "mf_%s:right-of-the-ramp-is-not-zero" % fam)
        elif clause == "core":
            # exactly one on the (closed) core [b, c], zero-width flanks included: the core cases of the documented list do not overlap with
            # each other, only with the end of a zero-width flank, where the shoulder value 1 is what the piecewise shape gives from inside
            p = params(ex, fam, strict=False)
            x = ex.fresh_real("x")
            ex.assume(conj([rle(p[1], x), rle(x, p[2])]))
            ex.check(req(call(x, p), ONE), "mf_%s:core-is-not-one-(zero-width-flank-allowed)" % fam)
        elif clause == "complement":
            # S + Z = 1 and lins + linz = 1 for the same parameters
            other = {"s": "z", "lins": "linz"}[fam]
            p = params(ex, fam, strict=True)
            x = ex.fresh_real("x")
            ex.check(req(add(call(x, p), tr.call("a_mf_" + other, x, *p, ret="f64")), ONE), "mf_%s+mf_%s:not-complementary" % (fam, other))
        elif clause == "continuity":
            # the value at every break point equals the limit of the neighbouring pieces
            p = params(ex, fam, strict=True)
            knots = list(p) + ([mul(HALF, add(p[0], p[1]))] if fam in ("s", "z") else []) + \
                    ([mul(HALF, add(p[0], p[1])), mul(HALF, add(p[2], p[3]))] if fam == "pi" else [])
            k = ex.pick(list(range(len(knots))), "knot")
            b = knots[k]
            side = ex.pick([-1, 1], "side")
            x = ex.fresh_real("x")
            # x strictly between the knot and its nearest neighbour on that side (a non-empty open segment)
            others = [q for i, q in enumerate(knots) if i != k]
            if side < 0:
                ex.assume(rlt(x, b))
                for q in others:
                    ex.assume(z3.Or(R(q) >= R(b), R(q) < R(x)))
                lo, hi = x, b
            else:
                ex.assume(rlt(b, x))
                for q in others:
                    ex.assume(z3.Or(R(q) <= R(b), R(q) > R(x)))
                lo, hi = b, x
            fx = call(x, p)
            P = Piece(ex, lambda t_: call(t_, p), x, fx, lo, hi)
            ex.check(req(P.at(b), call(b, p)), "mf_%s:discontinuous-at-a-break-point" % fam, "knot %d side %d" % (k, side))
    return h


def opr_harness(name):
    def h(ex):
        tr = Tr(ex, "")
        set_mode(ex)
        ex.path_tags = ["fuzzy", name]
        a, b, c = [ex.fresh_real(n) for n in "abc"]
        ex.assume(conj([unit(a), unit(b), unit(c), rle(b, c)]))
        f = lambda u, v: tr.call("a_fuzzy_" + name, u, v, ret="f64")
        ab, ba, ac = f(a, b), f(b, a), f(a, c)
        ex.check(unit(ab), "%s:result-outside-[0,1]" % name)
        ex.check(req(ab, ba), "%s:not-commutative" % name)
        ex.check(rle(ab, ac), "%s:not-monotone" % name)
        mn = z3.If(R(a) <= R(b), R(a), R(b))
        mx = z3.If(R(a) >= R(b), R(a), R(b))
        if name.startswith("cap"):
            ex.check(rle(ab, mn), "%s:intersection-exceeds-min" % name)
            ex.check(conj([req(f(a, ONE), a), req(f(a, ZERO), ZERO)]), "%s:boundary-cases" % name)
        elif name.startswith("cup"):
            ex.check(rle(mx, ab), "%s:union-below-max" % name)
            ex.check(conj([req(f(a, ZERO), a), req(f(a, ONE), ONE)]), "%s:boundary-cases" % name)
        else:   # equilibrium operator: between intersection and union classes; contract used by C12
            ex.check(conj([rle(ab, mx)]), "equ:exceeds-max")
            ex.check(req(ab, ZERO) == (req(mul(a, b), ZERO)), "equ:zero-iff-a*b-is-zero")
            ex.check(conj([req(f(a, ZERO), ZERO), req(f(ONE, ONE), ONE)]), "equ:boundary-cases")
    return h


EPS = Fraction(2) ** -52


def div(a, b):
    if isinstance(a, (Fraction, int)) and isinstance(b, (Fraction, int)):
        return Fraction(a) / Fraction(b)
    return R(a) / R(b)


def _opr(py, sym):
    return lambda conc, a, b: py(Fraction(a), Fraction(b)) if conc else sym(R(a), R(b))


REF_OPR = {"cap": _opr(min, lambda a, b: z3.If(a < b, a, b)), "cap_algebra": _opr(lambda a, b: a * b, lambda a, b: a * b),
           "cap_bounded": _opr(lambda a, b: max(a + b - 1, Fraction(0)), lambda a, b: z3.If(a + b - 1 > 0, a + b - 1, 0)),
           "cup": _opr(max, lambda a, b: z3.If(a > b, a, b)), "cup_algebra": _opr(lambda a, b: a + b - a * b, lambda a, b: a + b - a * b),
           "cup_bounded": _opr(lambda a, b: min(a + b, Fraction(1)), lambda a, b: z3.If(a + b < 1, a + b, 1))}


def gains_harness(nrule, nfuzz, opr, shapes, partition, shared, regions=False):
    def h(ex):
        tr = Tr(ex, "")
        set_mode(ex)
        fuzzyctl.install_math(ex)
        fuzzyctl.equ_contract(ex)
        ex.path_tags = ["gains", "order %d buffer %d" % (nrule, nfuzz), opr]
        c = FuzzyCtl(ex, tr, nrule, nfuzz, opr, shapes, partition=partition, shared=shared)
        for n in ("outmin", "summin"):
            tr.store(c.ctx + 8 * PID_F.index(n), Fraction(-10), 8, isfloat=True)
        for n in ("outmax", "summax"):
            tr.store(c.ctx + 8 * PID_F.index(n), Fraction(10), 8, isfloat=True)
        s, f = ex.fresh_real("set"), ex.fresh_real("fdb")
        # previous error: with a symbolic one, error and error change are independent inputs and may activate different numbers of sets
        err0 = ex.fresh_real("err0") if regions else ZERO
        tr.store(c.ctx + 8 * PID_F.index("err"), err0, 8, isfloat=True)
        e_ = sub(s, f)
        ec_ = sub(e_, err0)
        deg = {"me": [], "mec": []}
        if regions:
            # the harness fixes, per input and triangle, where the input lies: left of the support, rising flank, falling flank
            # (peak included), right of the support; degrees on the flanks are above A_REAL_EPSILON (smaller ones are ignored by the controller)
            for which, x in (("me", e_), ("mec", ec_)):
                for i in range(nrule):
                    sh, (pa, pb, pc) = c.sets[which][i]
                    k = ex.pick([0, 1, 2, 3], "region_%s%d" % (which, i))
                    if k == 0:
                        ex.assume(rle(x, pa)); m = None
                    elif k == 1:
                        ex.assume(conj([rlt(pa, x), rlt(x, pb)])); m = div(sub(x, pa), sub(pb, pa))
                    elif k == 2:
                        ex.assume(conj([rle(pb, x), rlt(x, pc)])); m = div(sub(pc, x), sub(pc, pb))
                    else:
                        ex.assume(rle(pc, x)); m = None
                    if m is not None:
                        ex.assume(rlt(EPS, m))
                    deg[which].append(m)
                if nfuzz < nrule and sum(1 for m in deg[which] if m is not None) > nfuzz:
                    raise core.Infeasible()         # the buffer is documented to hold nfuzz simultaneously active sets
        tr.call("a_pid_fuzzy_pos", c.ctx, s, f, ret="f64")       # any access outside the exact-size scratch buffer is a MEM finding
        st = get_pid(ex, c.ctx)
        # the degrees the controller stored in its scratch buffer, in the order of the active sets
        vals, lem = [], []
        if regions:
            act = [m for m in deg["me"] if m is not None]
            if act:
                act = act + [m for m in deg["mec"] if m is not None]
            vbase = c.buf + 2 * 4 * nfuzz
            for k, m in enumerate(act):
                v = ex.load(vbase + 8 * k, F64)
                ex.check(req(v, m), "pid_fuzzy:stored-degree-%d-is-not-the-membership-of-the-active-set" % k)
                ex.check(z3.And(R(v) > EPS, R(v) <= 1), "pid_fuzzy:stored-degree-%d-outside-(eps,1]" % k)
                vals.append(v)
                lem.append(z3.And(R(v) > EPS, R(v) <= 1))
        for g, tab in ((("kp", "mkp"), ("ki", "mki"), ("kd", "mkd")) if nrule == 2 else ()):   # order 3: buffer clause only
            d = sub(st[g], c.base[g])
            cons = c.tabs[tab].v
            lo, hi = cons[0], cons[0]
            for v in cons[1:]:
                lo = z3.If(R(v) < R(lo), R(v), R(lo))
                hi = z3.If(R(v) > R(hi), R(v), R(hi))
            # base + weighted mean of consequents (or base alone when nothing fired): inside [min, max] of the table, or exactly the base
            ex.check_abs(z3.Or(R(d) == 0, z3.And(R(lo) <= R(d), R(d) <= R(hi))), "pid_fuzzy:scheduled-%s-outside-the-range-of-the-rule-consequents" % g, vals, lemmas=lem)
        # reference weighted mean over the rule table for the operators with a closed form (every set a triangle);
        # the position of each input relative to each triangle was fixed by the harness before the call (region picks),
        # so the reference degrees are plain rational expressions on this path; the identity itself is decided on a
        # generalisation in which the degrees are free variables (check_abs), the exact query being the fallback
        if opr in REF_OPR and regions:
            conc = ex.concrete is not None
            it = iter(vals)
            me = [None if m is None else next(it, None) for m in deg["me"]]
            mec = [None if m is None else next(it, None) for m in deg["mec"]]
            den = ZERO
            w = {}
            for i in range(nrule):
                for j in range(nrule):
                    # a rule takes part only if both of its sets are active (the union operators are positive with one active set)
                    w[i, j] = REF_OPR[opr](conc, me[i], mec[j]) if (me[i] is not None and mec[j] is not None) else ZERO
                    den = add(den, w[i, j])
            for g, tab in (("kp", "mkp"), ("ki", "mki"), ("kd", "mkd")):
                num = ZERO
                for i in range(nrule):
                    for j in range(nrule):
                        num = add(num, mul(w[i, j], c.tabs[tab].v[i * nrule + j]))
                lab1 = "pid_fuzzy:%s-is-not-base-plus-the-weighted-mean-of-the-consequents" % g
                lab0 = "pid_fuzzy:%s-is-not-the-base-gain-when-no-rule-fires" % g
                if conc:
                    if den > 0:
                        ex.check(req(mul(st[g], den), add(mul(c.base[g], den), num)), lab1)
                    else:
                        ex.check(req(st[g], c.base[g]), lab0)
                else:
                    ex.check_abs(z3.Implies(R(den) > 0, R(st[g]) * R(den) == R(c.base[g]) * R(den) + R(num)), lab1, vals, lemmas=lem)
                    ex.check_abs(z3.Implies(R(den) == 0, R(st[g]) == R(c.base[g])), lab0, vals, lemmas=lem)
    return h


def builder(p):
    if p[0] == "mf":
        return "mf/%s/%s" % (p[1], p[2]), mf_harness(p[1], p[2])
    if p[0] == "opr":
        return "operator/" + p[1], opr_harness(p[1])
    return "gains/order%d-buf%d/%s/%s%s%s" % (p[1], p[2], p[3], "+".join(p[4]), "/shared-table" if p[6] else "", "/regions" if len(p) > 7 and p[7] else ""), gains_harness(*p[1:])


def main():
    cfg = gen_config()
    if os.environ.get("VERIF_REPLAY") and os.environ["VERIF_REPLAY"].endswith(".json"):
        return replay_file(cfg, os.environ["VERIF_REPLAY"])
    res = Result(PID)
    T = tier()
    # E1: the exact (min/max) operators bit-precisely over all doubles in [0,1]
    hs = [H("e1/%s_%s" % (o, c), F, "h_opr_%s_%s" % (o, c), ["mf.c", "fuzzy.c"], unwind=2, timeout=300, backends=("kissat", "cadical"))
          for o in ("cap", "cup") for c in ("range", "commutative", "monotone", "boundary")] + \
         [H("e1/dispatch_nul", F, "h_dispatch_nul", ["mf.c", "fuzzy.c"], unwind=2, timeout=300, backends=("kissat", "cadical"))]
    run_e1(res, cfg, hs, default_timeout=300)
    inst = []
    for fam in MF_E:
        inst.append(("mf", fam, "range"))
    for fam in ("trap", "tri", "lins", "linz", "s", "z", "pi"):
        inst.append(("mf", fam, "shape"))
        inst.append(("mf", fam, "continuity"))
    inst += [("mf", "s", "complement"), ("mf", "lins", "complement"), ("mf", "trap", "core"), ("mf", "pi", "core")]
    for o in ("cap", "cap_algebra", "cap_bounded", "cup", "cup_algebra", "cup_bounded", "equ"):
        inst.append(("opr", o))
    for opr in fuzzyctl.OPRS:
        inst.append(("gains", 2, 2, opr, ("tri", "tri"), False, True))
    # separate set tables, independent error / error change (symbolic previous error), every position of both inputs relative to
    # every triangle, reference weighted mean for all three gains: the product operator in the quick tier, all closed-form operators in the thorough one
    inst.append(("gains", 2, 2, "cap_algebra", ("tri", "tri"), False, False, True))
    deep = ([("gains", 2, 2, o, ("tri", "tri"), False, False, True) for o in ("cap", "cap_bounded", "cup", "cup_algebra", "cup_bounded")] + [("gains", 3, 2, "cap_algebra", ("tri", "tri", "tri"), True, False, True)]) if T == "thorough" else []
    inst.append(("gains", 3, 2, "cap_algebra", ("tri", "tri", "tri"), True, True))      # buffer sized for the two simultaneously active sets
    srcs = ["mf.c", "fuzzy.c", "pid_fuzzy.c", "pid.c", "math.c", "a.c"]
    e2.run_e2(res, cfg, srcs, inst, builder, group="real", validate_every=3, tol=1e-6, exec_attrs={"force_solver": True},
              exec_opts={"solver": "nra", "timeout_ms": 120000}, time_budget=500 if T == "quick" else 3000,
              sigmap=lambda n: "/".join(n.split("/")[:3]))
    if deep:
        e2.run_e2(res, cfg, srcs, deep, builder, group="real-deep", validate_every=2, tol=1e-6, exec_attrs={"force_solver": True},
                  exec_opts={"solver": "nra", "timeout_ms": 120000}, time_budget=4000, sigmap=lambda n: "/".join(n.split("/")[:3]), droppable=True)
    res.functions.update(["a_mf"] + ["a_mf_" + f for f in MF_E] +
                         ["a_fuzzy_cap", "a_fuzzy_cap_algebra", "a_fuzzy_cap_bounded", "a_fuzzy_cup", "a_fuzzy_cup_algebra", "a_fuzzy_cup_bounded", "a_fuzzy_equ",
                          "a_pid_fuzzy_out_", "a_pid_fuzzy_mf", "a_pid_fuzzy_set_bfuzz"])
    res.bounds = {"membership functions": "all real inputs and parameter tuples (a <= b <= c <= d; non-zero widths for the smooth families; equal positive slopes and ordered centres for dsig); exp and general pow are uninterpreted with sign/monotonicity contracts, pow(u, 2) = u*u",
                  "operators": "all pairs of degrees in [0,1] (exact reals); min/max additionally bit-precise over all IEEE doubles in [0,1] (CBMC)",
                  "gain scheduling": "rule bases of order 2 (buffer for 2 sets) and order 3 with a buffer for the 2 simultaneously active sets of a partition of triangles; scratch buffer is an exact-size object; 'regions' instances: separate set tables for error and error change, symbolic previous error (the two inputs activate different numbers of sets), all 4^4 positions of the inputs relative to the four triangles, all three gains compared with base + weighted mean over the rule table (product operator; thorough tier: all six closed-form operators, droppable); the mean identity is decided on a generalisation with the degrees as free variables (exact query as fallback)"}
    res.outside = ["bit-precise range of the membership functions (floating-point division circuits: no SAT verdict within 280 s, double or float) - decided in the reals instead; in IEEE the algebraic/bounded operators miss commutativity-style identities by an ulp, which is rounding",
                   "a_fuzzy_equ_ (general pow)", "accuracy of exp/pow", "rule bases of order above 3"]
    res.assumptions = ["floats as reals; EXP is positive, increasing, EXP(t) <= 1 iff t <= 0; POW(x, y) in [0,1] for x in [0,1], y >= 0"]
    res.stubs = ["exp, pow: uninterpreted functions with contracts", "sqrt: y >= 0 with y*y = x", "a_fuzzy_equ inside the controller: its contract (proved by operator/equ)"]
    e2.finish_coverage(res, must_cover=["a_mf_trap", "a_mf_pi", "a_mf_dsig", "a_mf", "a_fuzzy_equ", "a_pid_fuzzy_out_"], report_funcs=None)
    return res.finish()


if __name__ == "__main__":
    sys.exit(main())
