"""C18: UTF-8 codec — E1 (CBMC), DESIGN.md section 4/C18."""
import os, sys
from vcommon import *
from e1 import H, run_e1, replay_file

PID = "C18"
F = os.path.join(VERIF, "harness", "C18", "c18.c")
SRCS = ["utf.c"]


def main():
    cfg = gen_config()
    if os.environ.get("VERIF_REPLAY"):
        return replay_file(cfg, os.environ["VERIF_REPLAY"])
    res = Result(PID)
    T = tier()
    NB = 8 if T == "quick" else 12
    D = ("NB=%d" % NB,)
    hs = [H("roundtrip/all-code-points", F, "h_roundtrip", SRCS, defs=D, unwind=8),
          H("decode/arbitrary-bytes", F, "h_decode_any", SRCS, defs=D, unwind=NB + 2),
          H("length/arbitrary-bytes", F, "h_length", SRCS, defs=D, unwind=NB + 3),
          H("length/arbitrary-bytes-exact-object", F, "h_length_safety", SRCS, defs=("NB=%d" % (NB - 2),), unwind=NB + 3),
          H("length_/arbitrary-bytes", F, "h_length_", SRCS, defs=D, unwind=NB + 3),
          H("length/encoder-text", F, "h_length_valid", SRCS, defs=D, unwind=15)]
    res.functions.update(["a_utf_encode", "a_utf_decode", "a_utf_length", "a_utf_length_"])
    res.bounds = {"code points": "all of 1..2^31-1 (symbolic 32-bit word)", "arbitrary buffers": "every length 0..%d, all byte values, exact-size heap objects" % NB,
                  "encoder text": "two arbitrary code points, optional NUL terminator, truncation inside the second"}
    res.outside = ["arbitrary buffers longer than %d bytes" % NB, "a_utf_catc/a_utf_len wrappers in src/str.c (covered under C06)"]
    res.assumptions = ["CBMC bit-precise C semantics; malloc never fails (allocation failure is outside this property)",
                       "an out-of-bounds read is detected by CBMC's pointer checks on exact-size malloc objects"]
    run_e1(res, cfg, hs, default_timeout=300 if T == "quick" else 1800)
    return res.finish()


if __name__ == "__main__":
    sys.exit(main())
