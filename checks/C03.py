"""C03: tree iterators and tear-down — E2 (llsym), DESIGN.md section 4/C03."""
import os, sys
from vcommon import *
import e2
sys.path.insert(0, os.path.join(VERIF, "harness", "llsym"))
import trees, core
from trees import Tree, lt, conj

PID = "C03"
I64 = core.ir.int_t(64)
TU = os.path.join(VERIF, "harness", "tu", "trees_tu.c")

PRELUDE = trees.C_PRELUDE + """
void w_release(void *p) { for (unsigned k = 0; k < sizeof O / sizeof *O; ++k) { if (O[k] == p) { O[k] = 0; } } free(p); }
"""


def kids(t):
    return (t[0], t[1]) if len(t) == 2 else (t[1], t[2])


def orders(shape, addr_of):
    """Expected visiting sequences (lists of node addresses) from the shape. addr_of: in-order index -> addr."""
    cnt = [0]
    tree = {}

    def lab(t):
        if t is None:
            return None
        l, r = kids(t)
        L = lab(l)
        me = cnt[0]
        cnt[0] += 1
        R = lab(r)
        tree[me] = (L, R)
        return me
    root = lab(shape)

    def pre(n, mirror=False):
        if n is None:
            return []
        l, r = tree[n]
        a, b = (r, l) if mirror else (l, r)
        return [n] + pre(a, mirror) + pre(b, mirror)

    def post(n, mirror=False):
        if n is None:
            return []
        l, r = tree[n]
        a, b = (r, l) if mirror else (l, r)
        return post(a, mirror) + post(b, mirror) + [n]
    n = cnt[0]
    seqs = {"foreach": list(range(n)), "foreach_reverse": list(range(n - 1, -1, -1)), "pre_foreach": pre(root),
            "pre_foreach_reverse": pre(root, True), "post_foreach": post(root), "post_foreach_reverse": post(root, True)}
    sub = {}

    def subtree(n):
        if n is None:
            return set()
        l, r = tree[n]
        s = {n} | subtree(l) | subtree(r)
        sub[n] = s
        return s
    subtree(root)
    return {k: [addr_of[i] for i in v] for k, v in seqs.items()}, {addr_of[k]: {addr_of[i] for i in v} for k, v in sub.items()}


def harness(kind, shape, mode):
    pfx = "a_" + kind

    def h(ex):
        t = Tree(ex, kind)
        t.tr.c_prelude = PRELUDE
        nodes = t.build(shape)
        n = len(nodes)
        ex.hooks["w_release"] = lambda ex, p: ex.free(p)
        ex.path_tags = [kind, trees.shape_str(shape), mode]
        seqs, sub = orders(shape, nodes)
        out = t.tr.alloc(8 * (n + 1), "out")
        before = t.snapshot()

        def read_out(cnt):
            return [ex.load(out + 8 * i, I64) for i in range(cnt)]
        if mode == "iter":
            for name, exp in seqs.items():
                cnt = t.tr.call("w_%s_%s" % (kind, name), t.root, out, ret="i64")
                ex.check(cnt == n, "%s:visits-every-element-once" % name, "count %s expected %d" % (cnt, n))
                got = read_out(n)
                ex.check(got == exp, "%s:documented-order" % name)
                if name == "foreach":
                    ex.check(conj([lt(ex, t.key[got[i]], t.key[got[i + 1]]) for i in range(n - 1)]), "foreach:ascending-keys")
                if name == "foreach_reverse":
                    ex.check(conj([lt(ex, t.key[got[i + 1]], t.key[got[i]]) for i in range(n - 1)]), "foreach_reverse:descending-keys")
            ex.check(before == t.snapshot(), "iteration:does-not-modify")
        elif mode == "inverse":
            if not nodes:
                raise core.Infeasible()
            s = ex.pick(nodes, "start")
            i = nodes.index(s)
            nx = t.tr.call(pfx + "_next", s, ret="ptr")
            ex.check(nx == (nodes[i + 1] if i + 1 < n else 0), "next:is-in-order-successor")
            if nx:
                ex.check(t.tr.call(pfx + "_prev", nx, ret="ptr") == s, "prev-of-next:is-identity")
            pv = t.tr.call(pfx + "_prev", s, ret="ptr")
            ex.check(pv == (nodes[i - 1] if i > 0 else 0), "prev:is-in-order-predecessor")
            if pv:
                ex.check(t.tr.call(pfx + "_next", pv, ret="ptr") == s, "next-of-prev:is-identity")
            # single steps of the other orders agree with the whole-sequence expectation
            for name, step in (("pre_foreach", "_pre_next"), ("pre_foreach_reverse", "_pre_prev"), ("post_foreach", "_post_next"), ("post_foreach_reverse", "_post_prev")):
                seq = seqs[name]
                j = seq.index(s)
                r = t.tr.call(pfx + step, s, ret="ptr")
                ex.check(r == (seq[j + 1] if j + 1 < n else 0), "%s:single-step" % step[1:])
            ex.check(t.tr.call(pfx + "_head", t.root, ret="ptr") == (nodes[0] if n else 0), "head:is-smallest")
            ex.check(t.tr.call(pfx + "_tail", t.root, ret="ptr") == (nodes[-1] if n else 0), "tail:is-largest")
        else:  # tear
            stop = ex.pick(list(range(0, n + 1)), "stop")
            pnext = t.tr.alloc(8, "pnext")
            t.tr.store(pnext, 0, 8)
            c1 = t.tr.call("w_%s_fortear" % kind, t.root, out, stop, pnext, ret="i64")
            ex.check(c1 == min(stop, n), "tear:count-before-interruption")
            first = read_out(c1)
            ex.check(len(set(first)) == len(first) and set(first) <= set(nodes), "tear:each-element-once")
            yielded = set()
            for x in first:
                ex.check(sub[x] - {x} <= yielded, "tear:children-before-parents")
                yielded.add(x)
            # after the interruption: reachable from the root = exactly the not yet yielded elements
            root = ex.load(t.root, I64)
            reach = []

            def walk(a, depth=0):
                if a == 0:
                    return
                ex.check(a in t.key and a not in yielded and depth < 64 and a not in reach, "tear:released-node-still-linked", hex(a))
                reach.append(a)
                walk(ex.load(a, I64), depth + 1)
                walk(ex.load(a + 8, I64), depth + 1)
            walk(root)
            ex.check(set(reach) == set(nodes) - yielded, "tear:remaining-elements-still-reachable")
            out2 = t.tr.alloc(8 * (n + 1), "out2")
            c2 = t.tr.call("w_%s_tear_resume" % kind, t.root, out2, pnext, ret="i64")
            rest = [ex.load(out2 + 8 * i, I64) for i in range(c2)] if isinstance(c2, int) and c2 <= n else None
            ex.check(rest is not None and c1 + c2 == n and set(first) | set(rest) == set(nodes), "tear:every-element-exactly-once")
            for x in rest:
                ex.check(sub[x] - {x} <= yielded, "tear:children-before-parents")
                yielded.add(x)
            ex.check(ex.load(t.root, I64) == 0, "tear:leaves-tree-empty")
    return h


def builder(params):
    kind, shape, mode = params
    return "%s/%s/%s" % (kind, trees.shape_str(shape), mode), harness(kind, shape, mode)


def main():
    cfg = gen_config()
    res = Result(PID)
    T = tier()
    H, N = (3, 7) if T == "quick" else (4, 10)
    inst = []
    avl = [s for h in range(0, H + 1) for s in trees.avl_shapes(h)]
    rbt = trees.rb_trees_upto(N)
    for kind, shapes in (("avl", avl), ("rbt", rbt)):
        for s in shapes:
            for mode in ("iter", "inverse", "tear"):
                if s is None and mode == "inverse":
                    continue
                inst.append((kind, s, mode))
    fs = ["head", "tail", "next", "prev", "pre_next", "pre_prev", "post_head", "post_tail", "post_next", "post_prev", "tear"]
    res.functions.update(["a_avl_" + f for f in fs] + ["a_rbt_" + f for f in fs] +
                         ["a_{avl,rbt}_{foreach,foreach_reverse,pre_foreach,pre_foreach_reverse,post_foreach,post_foreach_reverse,fortear} (macros, instantiated in harness/tu/trees_tu.c)"])
    res.bounds = {"shapes": "every AVL shape of height <= %d (%d) and every red-black tree with <= %d nodes (%d)" % (H, len(avl), N, len(rbt)),
                  "symbolic": "start node of the successor/predecessor clauses, interruption point of tear-down (0..n), key values (ordered)"}
    res.outside = ["taller / larger trees", "unpacked struct variants"]
    res.assumptions = ["iterators do not depend on key values (keys symbolic, only their order is assumed)",
                       "tear-down: each handed-out node object is freed immediately in llsym memory, so any later access is reported as use-after-free",
                       "honest note: shapes are enumerated; the solver's share is the start node, the interruption point and the key-order clauses"]
    res.stubs = ["w_release: frees the node object (llsym: object marked dead; native replay: free())"]
    e2.run_e2(res, cfg, ["avl.c", "rbt.c"], inst, builder, wrappers=[TU], group="iter", validate_every=29,
              replay_srcs=repo_sources(["avl.c", "rbt.c"]) + [TU], time_budget=900 if T == "quick" else 6000)
    e2.finish_coverage(res, must_cover=["a_avl_" + f for f in fs] + ["a_rbt_" + f for f in fs],
                       report_funcs=set(["a_avl_" + f for f in fs] + ["a_rbt_" + f for f in fs]))
    return res.finish()


if __name__ == "__main__":
    sys.exit(main())
