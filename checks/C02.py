"""C02: red-black tree — E2 (llsym, bit-vector domain), DESIGN.md section 4/C02."""
import os, sys
from vcommon import *
import e2
sys.path.insert(0, os.path.join(VERIF, "harness", "llsym"))
import trees, treecheck

PID = "C02"


def main():
    treecheck.CFG.update(KIND="rbt", PFX="a_rbt")
    cfg = gen_config()
    res = Result(PID)
    T = tier()
    N, K = (8, 5) if T == "quick" else (11, 6)    # K = 7: the longest histories had not finished after 85 min
    shapes = trees.rb_trees_upto(N)
    inst = [("step", s, op) for s in shapes for op in ("insert", "remove", "search") if not (s is None and op == "remove")]
    if T == "quick":        # the deepest removal fix-up cases need 9+ nodes: remove only, from every valid tree with 9 or 10 nodes
        inst += [("step", s, "remove") for s in trees.rb_trees_upto(10) if trees.size(s) > N]
    hist = [("hist", s) for s in treecheck.op_strings(K)]
    res.functions.update(["a_rbt_insert", "a_rbt_insert_adjust", "a_rbt_remove", "a_rbt_remove_adjust", "a_rbt_set_parents",
                          "a_rbt_set_parent_color", "a_rbt_set_parent", "a_rbt_search", "a_rbt_init", "a_rbt_parent"])
    res.bounds = {"inductive step": "one insert / remove / search with symbolic key or victim from every valid red-black tree with <= %d nodes (%d trees), keys symbolic under the in-order strict order%s" % (N, len(shapes), "; remove additionally from every valid tree with 9 or 10 nodes" if T == "quick" else ""),
                  "histories": "all %d insert/remove patterns of length %d from the empty tree; keys and victims symbolic" % (len(hist), K),
                  "configuration": "A_SIZE_POINTER == 8 (packed parent word, bit 0 = colour)"}
    res.outside = ["pre-states with more than %d nodes" % N, "the unpacked struct variant", "comparison callbacks that are not a strict weak order",
                   "valid colourings that no history reaches are included as pre-states (the algorithm is correct from any valid tree)"]
    res.assumptions = ["llsym executes the clang-14 -O0 + sroa,mem2reg IR of src/rbt.c; validated each run against the native build on sampled paths",
                       "A_ASSUME(...) in a_rbt_remove_adjust is treated as an assertion (llvm.assume operand must be implied by the path condition)"]
    res.stubs = ["cmp callback: Python hook returning the symbolic sign of key(a) - key(b) (C replay: cmp_key)"]
    TB = 900 if T == "quick" else 3000
    e2.run_e2(res, cfg, ["rbt.c"], inst, treecheck.builder, group="step", validate_every=23, time_budget=TB)
    e2.run_e2(res, cfg, ["rbt.c"], hist, treecheck.builder, group="history", validate_every=5, time_budget=TB)
    e2.finish_coverage(res, must_cover=["a_rbt_insert", "a_rbt_remove", "a_rbt_search", "a_rbt_insert_adjust"],
                       report_funcs={"a_rbt_insert", "a_rbt_remove", "a_rbt_search", "a_rbt_insert_adjust", "a_rbt_remove_adjust"})
    return res.finish()


if __name__ == "__main__":
    sys.exit(main())
