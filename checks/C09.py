"""C09: matrix product, transpose and structure kernels — E2 (llsym, exact-real domain), DESIGN.md 4/C09."""
import os, sys, itertools
from fractions import Fraction
from vcommon import *
import e2
sys.path.insert(0, os.path.join(VERIF, "harness", "llsym"))
import core, z3
from replay import Tr
from realcheck import *

PID = "C09"


def mat(ex, tr, m, n, name, junk=True):
    return Arr(ex, tr, m * n, name)


def check_mat(ex, got, exp, label):
    for i, (g, e) in enumerate(zip(got, exp)):
        ex.check(req(g, e), label, "element %d" % i)


def mul_harness(kind, r, k, c):
    def h(ex):
        tr = Tr(ex, "")
        ex.path_tags = [kind, "%dx%dx%d" % (r, k, c)]
        # X is r x k (or k x r when transposed), Y is k x c (or c x k when transposed)
        X = Arr(ex, tr, r * k, "x")
        Y = Arr(ex, tr, k * c, "y")
        Z = Arr(ex, tr, r * c, "z")            # pre-filled with symbolic junk: must be fully overwritten
        x = (lambda i, j: X.v[i * k + j]) if kind in ("mulmm", "mulmT") else (lambda i, j: X.v[j * r + i])
        y = (lambda i, j: Y.v[i * c + j]) if kind in ("mulmm", "mulTm") else (lambda i, j: Y.v[j * k + i])
        if kind == "mulmm":
            tr.call("a_real_mulmm", r, k, c, X.addr, Y.addr, Z.addr, ret="void")
        elif kind == "mulTm":
            tr.call("a_real_mulTm", k, r, c, X.addr, Y.addr, Z.addr, ret="void")
        elif kind == "mulmT":
            tr.call("a_real_mulmT", r, c, k, X.addr, Y.addr, Z.addr, ret="void")
        else:
            tr.call("a_real_mulTT", r, k, c, X.addr, Y.addr, Z.addr, ret="void")
        exp = [ssum([mul(x(i, q), y(q, j)) for q in range(k)]) for i in range(r) for j in range(c)]
        check_mat(ex, Z.get(), exp, kind + ":not-the-product-of-the-(transposed)-operands")
        check_mat(ex, X.get(), X.v, kind + ":input-X-modified")
        check_mat(ex, Y.get(), Y.v, kind + ":input-Y-modified")
    return h


def struct_harness(kind, m, n):
    def h(ex):
        tr = Tr(ex, "")
        ex.path_tags = [kind, "%dx%d" % (m, n)]
        one, zero = Fraction(1), Fraction(0)
        sq = kind in ("T1", "eye1", "tri1", "diag", "diag1", "triL", "triL1", "triU", "triU1")
        mm = n if sq else m
        if kind == "T1":
            A = Arr(ex, tr, n * n, "a")
            tr.call("a_real_T1", n, A.addr, ret="void")
            check_mat(ex, A.get(), [A.v[j * n + i] for i in range(n) for j in range(n)], "T1:not-the-transpose")
            T = Arr(ex, tr, n * n, "t")
            tr.call("a_real_T2", n, n, A.addr, T.addr, ret="void")
            check_mat(ex, T.get(), A.v, "T2(T1(A)):not-A (T1 and T2 disagree on squares)")
            tr.call("a_real_T1", n, A.addr, ret="void")
            check_mat(ex, A.get(), A.v, "T1:not-an-involution")
        elif kind == "T2":
            A = Arr(ex, tr, m * n, "a")
            T = Arr(ex, tr, n * m, "t")
            tr.call("a_real_T2", m, n, A.addr, T.addr, ret="void")
            check_mat(ex, T.get(), [A.v[i * n + j] for j in range(n) for i in range(m)], "T2:not-the-transpose")
            B = Arr(ex, tr, m * n, "b")
            tr.call("a_real_T2", n, m, T.addr, B.addr, ret="void")
            check_mat(ex, B.get(), A.v, "T2:transposing-twice-is-not-the-identity")
            check_mat(ex, A.get(), A.v, "T2:input-modified")
        elif kind in ("eye1", "eye2", "tri1", "tri2"):
            E = Arr(ex, tr, mm * n, "e")
            if kind.endswith("1"):
                tr.call("a_real_" + kind, n, E.addr, ret="void")
            else:
                tr.call("a_real_" + kind, m, n, E.addr, ret="void")
            if kind.startswith("eye"):
                exp = [one if i == j else zero for i in range(mm) for j in range(n)]
            else:
                exp = [one if j <= i else zero for i in range(mm) for j in range(n)]
            check_mat(ex, E.get(), exp, kind + ":wrong-pattern")
        elif kind == "diag":
            a = Arr(ex, tr, n, "d")
            A = Arr(ex, tr, n * n, "a")
            tr.call("a_real_diag", n, a.addr, A.addr, ret="void")
            check_mat(ex, A.get(), [a.v[i] if i == j else zero for i in range(n) for j in range(n)], "diag:wrong-pattern")
        elif kind in ("diag1", "diag2"):
            A = Arr(ex, tr, mm * n, "a")
            k = min(mm, n)
            d = Arr(ex, tr, k, "d")
            if kind == "diag1":
                tr.call("a_real_diag1", n, A.addr, d.addr, ret="void")
            else:
                tr.call("a_real_diag2", m, n, A.addr, d.addr, ret="void")
            check_mat(ex, d.get(), [A.v[i * n + i] for i in range(k)], kind + ":not-the-diagonal")
            check_mat(ex, A.get(), A.v, kind + ":input-modified")
        else:  # triL triL1 triL2 triU triU1 triU2
            A = Arr(ex, tr, mm * n, "a")
            O = Arr(ex, tr, mm * n, "o")
            if kind.endswith("2"):
                tr.call("a_real_" + kind, m, n, A.addr, O.addr, ret="void")
            else:
                tr.call("a_real_" + kind, n, A.addr, O.addr, ret="void")
            lower = kind.startswith("triL")
            unit = kind.endswith("1")
            exp = []
            for i in range(mm):
                for j in range(n):
                    if i == j:
                        exp.append(one if unit else A.v[i * n + j])
                    elif (j < i) == lower:
                        exp.append(A.v[i * n + j])
                    else:
                        exp.append(zero)
            check_mat(ex, O.get(), exp, kind + ":wrong-pattern")
            check_mat(ex, A.get(), A.v, kind + ":input-modified")
    return h


def builder(p):
    if p[0].startswith("mul"):
        return "%s/%dx%dx%d" % p, mul_harness(*p)
    return "%s/%dx%d" % p, struct_harness(*p)


SQ = ["T1", "eye1", "tri1", "diag", "diag1", "triL", "triL1", "triU", "triU1"]
RECT = ["T2", "eye2", "tri2", "diag2", "triL2", "triU2"]


def main():
    cfg = gen_config()
    res = Result(PID)
    T = tier()
    D = 3 if T == "quick" else 6
    inst = []
    for kind in ("mulmm", "mulTm", "mulmT", "mulTT"):
        for r, k, c in itertools.product(range(1, D + 1), repeat=3):
            inst.append((kind, r, k, c))
    for kind in SQ:
        for n in range(1, D + 2):
            inst.append((kind, n, n))
    for kind in RECT:
        for m, n in itertools.product(range(1, D + 2), repeat=2):
            inst.append((kind, m, n))
    res.functions.update(["a_real_" + f for f in ["T1", "T2", "eye1", "eye2", "tri1", "tri2", "diag", "diag1", "diag2", "triL", "triL1", "triL2", "triU", "triU1", "triU2",
                                                   "mulmm", "mulTm", "mulmT", "mulTT"]])
    res.bounds = {"products": "all row/inner/column dimensions 1..%d (rectangular both ways, inner dimension 1 included), all entries symbolic reals" % D,
                  "structure kernels": "square orders 1..%d, rectangular shapes up to %dx%d" % (D + 1, D + 1, D + 1),
                  "memory": "operands and results are exact-size objects (any access outside is a MEM finding); results pre-filled with symbolic junk that must be overwritten"}
    res.outside = ["dimensions above the bound", "rounding of the products (the claim is the exact-real product; summation order is immaterial there)"]
    res.assumptions = ["floats treated as reals by design for the product clause; the structure kernels involve no arithmetic so their verdict is also valid bit-for-bit"]
    e2.run_e2(res, cfg, ["linalg.c"], inst, builder, group="linalg", validate_every=23, exec_attrs={"force_solver": True}, exec_opts={"solver": "nra"}, tol=1e-9, time_budget=300 if T == "quick" else 1500)
    e2.finish_coverage(res, must_cover=["a_real_" + f for f in ["T1", "T2", "eye2", "tri2", "diag", "triL2", "triU2", "mulmm", "mulTm", "mulmT", "mulTT"]], report_funcs=None)
    return res.finish()


if __name__ == "__main__":
    sys.exit(main())
