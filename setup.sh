#!/bin/sh
# Offline setup: only verifies that the pre-installed tools are present. Nothing is built from /repo here;
# every check rebuilds what it needs from /repo's current working tree.
fail=0
for t in cbmc goto-cc goto-instrument kissat clang-14 opt-14 z3 cvc5 python3-vt gcc; do
  command -v $t >/dev/null 2>&1 || { echo "missing tool: $t" >&2; fail=1; }
done
python3-vt -c "import z3" || fail=1
command -v rustc >/dev/null 2>&1 || [ -x /root/.cargo/bin/rustc ] || echo "note: rustc not on PATH (C20 looks in ~/.cargo/bin as well)" >&2
mkdir -p "$(dirname "$0")/evidence"
exit $fail
